use bumpalo::Bump;
use std::alloc::Layout;
use std::hint::black_box;

#[cfg(pad8)]
#[used]
#[link_section = ".data"]
static mut PAD: [u8; 8] = [1; 8];
#[cfg(pad16)]
#[used]
#[link_section = ".data"]
static mut PAD: [u8; 16] = [1; 16];
#[cfg(pad24)]
#[used]
#[link_section = ".data"]
static mut PAD: [u8; 24] = [1; 24];

fn probe<const M: usize>(bad: &mut u32) {
    for a in [1usize, 2, 4, 8, 16] {
        if a > M {
            continue;
        }
        // zero-sized requests on an arena that has not obtained any memory yet
        let b: Bump<M> = Bump::with_min_align();
        let l = Layout::from_size_align(black_box(0), black_box(a)).unwrap();
        let p = b.alloc_layout(l).as_ptr() as usize;
        let q = b.try_alloc_layout(l).map(|p| p.as_ptr() as usize).unwrap_or(0);
        let chunkless = b.allocated_bytes() == 0;
        for (what, x) in [("alloc_layout", p), ("try_alloc_layout", q)] {
            let ok = x != 0 && x % M == 0 && x % a == 0;
            if !ok {
                *bad += 1;
            }
            println!("SENTINEL min_align={M} align={a} {what} ptr={x:#x} residue_mod_16={} chunkless={chunkless} {}", x % 16, if ok { "ok" } else { "MISALIGNED" });
        }
    }
}

fn main() {
    let mut bad = 0;
    probe::<1>(&mut bad);
    probe::<2>(&mut bad);
    probe::<4>(&mut bad);
    probe::<8>(&mut bad);
    probe::<16>(&mut bad);
    println!("SENTINEL-SUMMARY misaligned={bad}");
}
