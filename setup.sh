#!/bin/bash
# setup_cmd: build the framework offline from files on disk
cd "$(dirname "$(readlink -f "$0")")" || exit 1
export CARGO_NET_OFFLINE=true
mkdir -p work evidence replays
(cd harness && cargo build --release && cargo build --profile dbg) || exit 1
(cd tsan && RUSTFLAGS="-Zsanitizer=thread --cap-lints allow" cargo +nightly build -Zbuild-std --target x86_64-unknown-linux-gnu --release) || exit 1
(cd harness && RUSTFLAGS="--cap-lints allow" cargo +nightly fuzz build) || exit 1
for v in nopad pad8 pad16 pad24; do (cd sentinel && RUSTFLAGS="--cfg $v --cap-lints allow" cargo build --release --target-dir target_$v) || exit 1; done
echo "setup ok"
