#!/bin/bash
# setup_cmd: build the framework offline from files on disk
cd /verif || exit 1
export CARGO_NET_OFFLINE=true
mkdir -p work evidence replays
(cd harness && cargo build --release) || exit 1
echo "setup ok"
