#!/usr/bin/env python3
"""tools/automut.py : operator-level mutation sampling over bumpalo's sources, to measure what the quick tiers notice.

Meant for a background snapshot run:   vp run --with-repo -- tools/automut.py [N_PER_FILE] [SEED]
(uses $VP_RUN_REPO as the repository copy; by hand it falls back to /repo, which must then be clean and idle).

For each sampled mutant: apply it, `cargo check` the crate with its optional features (non-compiling mutants are
skipped), then run the quick checks that look at the mutated file, cheapest first, stopping at the first that
reports a violation.  Results go to mutants/AUTO_RESULTS.jsonl (one JSON object per mutant) and a summary to
mutants/AUTO_SUMMARY.txt.  Nothing here is evidence for a property; it measures the sensitivity of the checks.
"""
import json, os, random, re, subprocess, sys, time

ROOT = os.path.dirname(os.path.dirname(os.path.abspath(__file__)))
os.chdir(ROOT)
REPO = os.environ.get("VP_RUN_REPO", "/repo")
N_PER_FILE = int(sys.argv[1]) if len(sys.argv) > 1 else 40
SEED = int(sys.argv[2]) if len(sys.argv) > 2 else 1
ONLY = sys.argv[3].split(",") if len(sys.argv) > 3 else None

if REPO != "/repo":
    for f in ("harness/Cargo.toml", "tsan/Cargo.toml", "sentinel/Cargo.toml"):
        s = open(f).read().replace('"/repo"', '"%s"' % REPO)
        open(f, "w").write(s)

ARENA = ["C01", "C02", "C12", "C08", "C06", "C10", "C11", "C07", "C03", "C18", "C09", "C19", "C20", "C04"]
FILES = {
    "src/lib.rs": ARENA + ["C13", "C14"],
    "src/alloc.rs": ["C12", "C19", "C01"],
    "src/collections/vec.rs": ["C13", "C15", "C16", "C18", "C19", "C17"],
    "src/collections/raw_vec.rs": ["C13", "C14", "C18", "C19", "C15", "C16"],
    "src/collections/string.rs": ["C14", "C16", "C19", "C18"],
    "src/collections/str/lossy.rs": ["C14"],
    "src/collections/str/core_str.rs": ["C14"],
    "src/collections/collect_in.rs": ["C13", "C14", "C17"],
    "src/boxed.rs": ["C17", "C15", "C16"],
}

OPS = [
    (r" <= ", " < "), (r" < ", " <= "), (r" >= ", " > "), (r" > ", " >= "),
    (r" == ", " != "), (r" != ", " == "),
    (r" \+ 1\b", ""), (r" - 1\b", ""), (r" \+ 1\b", " + 2"), (r" - 1\b", " + 1"),
    (r" && ", " || "), (r" \|\| ", " && "),
    (r"checked_add", "wrapping_add"), (r"checked_mul", "wrapping_mul"), (r"checked_sub", "wrapping_sub"),
    (r"saturating_sub", "wrapping_sub"), (r"saturating_add", "wrapping_add"),
    (r"\.max\(", ".min("), (r"\.min\(", ".max("),
    (r" \+ ", " - "), (r" - ", " + "), (r" \* ", " + "),
    (r"\bif (?!let)([^{]+) \{", r"if !(\1) {"),
    (r"\.add\(", ".sub("), (r"\.sub\(", ".add("),
    (r"\blen\b(?!\()", "len + 1"), (r"\bidx\b", "idx + 1"),
    (r"DELETE", ""),
]


def candidate_lines(path):
    lines = open(os.path.join(REPO, path)).read().split("\n")
    out = []
    in_test = False
    for i, l in enumerate(lines):
        st = l.strip()
        if st.startswith("#[cfg(test)]") or st.startswith("#[cfg(all(test"):
            in_test = True
        if in_test:
            continue
        if not st or st.startswith("//") or st.startswith("#[") or st.startswith("#!") or "debug_assert" in st:
            continue
        if st.startswith("fn ") or st.startswith("pub fn ") or st.startswith("impl") or st.startswith("use ") or st.startswith("pub use"):
            continue
        if "=>" in st and "if" not in st:
            pass
        out.append(i)
    return lines, out


def mutants_for(path):
    lines, cands = candidate_lines(path)
    ms = []
    for i in cands:
        l = lines[i]
        code = l.split("//")[0]
        for k, (pat, rep) in enumerate(OPS):
            if pat == "DELETE":
                st = code.strip()
                # delete a whole simple statement (a call ending in ';' on one line, not a let/return)
                if st.endswith(";") and "(" in st and not st.startswith(("let ", "return", "break", "continue", "}")) and st.count("(") == st.count(")") and "=" not in st.split("(")[0]:
                    ms.append((path, i, "delete-stmt", l, ""))
                continue
            for m in re.finditer(pat, code):
                if pat in (r" < ", r" > ", r" <= ", r" >= ") and re.search(r"(impl|fn |where|->|: |<[A-Z'])", code) and not re.search(r"\b(if|while|assert|&&|\|\|)\b", code):
                    continue
                new = code[: m.start()] + m.expand(rep) + code[m.end():] + l[len(code):]
                if new != l:
                    ms.append((path, i, "%s -> %s" % (pat, rep), l, new))
    return lines, ms


def sh(cmd, timeout=900, cwd=None):
    try:
        p = subprocess.run(cmd, shell=True, cwd=cwd, stdout=subprocess.PIPE, stderr=subprocess.STDOUT, timeout=timeout)
        return p.returncode, p.stdout.decode(errors="replace")
    except subprocess.TimeoutExpired:
        return 124, "timeout"


def main():
    rng = random.Random(SEED)
    os.makedirs("mutants", exist_ok=True)
    out = open("mutants/AUTO_RESULTS.jsonl", "a")
    subprocess.run("cp -r evidence work_evidence_keep_am 2>/dev/null", shell=True)
    plan = []
    for path, checks in FILES.items():
        if ONLY and not any(o in path for o in ONLY):
            continue
        if not os.path.exists(os.path.join(REPO, path)):
            continue
        lines, ms = mutants_for(path)
        rng.shuffle(ms)
        # at most one mutant per line in the sample
        seen = set()
        pick = []
        for m in ms:
            if m[1] in seen:
                continue
            seen.add(m[1])
            pick.append(m)
            if len(pick) >= N_PER_FILE:
                break
        plan += [(m, checks) for m in pick]
        print("%s: %d possible mutants, %d sampled" % (path, len(ms), len(pick)), flush=True)
    n = 0
    for (path, i, op, old, new), checks in plan:
        n += 1
        sh("git -C %s checkout -q -- ." % REPO)
        full = os.path.join(REPO, path)
        lines = open(full).read().split("\n")
        assert lines[i] == old
        lines[i] = new
        open(full, "w").write("\n".join(lines))
        rec = {"n": n, "seed": SEED, "file": path, "line": i + 1, "op": op, "before": old.strip(), "after": new.strip()}
        rc, o = sh('RUSTFLAGS="--cap-lints allow" cargo check --offline -q --features collections,boxed,allocator-api2,std', cwd=REPO)
        rc2, _ = sh("cargo check --offline -q", cwd=REPO)
        if rc != 0 or rc2 != 0:
            rec["compiled"] = False
            out.write(json.dumps(rec) + "\n"); out.flush()
            print(n, path, i + 1, op, "does not compile", flush=True)
            continue
        rec["compiled"] = True
        rec["runs"] = []
        caught = None
        t0 = time.time()
        for c in checks:
            rc, o = sh("./run %s quick 2>&1" % c, timeout=1500)
            line = [x for x in o.split("\n") if " quick: " in x][:1]
            rec["runs"].append({"check": c, "exit": rc, "line": line[0] if line else o[-300:]})
            if rc == 1:
                caught = c
                break
            if rc != 0:
                rec["inconclusive"] = True
        rec["caught_by"] = caught
        rec["wall_s"] = round(time.time() - t0, 1)
        out.write(json.dumps(rec) + "\n"); out.flush()
        print(n, path, i + 1, op, "caught by %s" % caught if caught else "%s  [%s] => [%s]" % ("INCONCLUSIVE (a check exited 2)" if rec.get("inconclusive") else "SURVIVED", old.strip(), new.strip()), flush=True)
    sh("git -C %s checkout -q -- ." % REPO)
    subprocess.run("rm -rf evidence; mv work_evidence_keep_am evidence 2>/dev/null", shell=True)
    out.close()
    # summary
    rows = [json.loads(l) for l in open("mutants/AUTO_RESULTS.jsonl")]
    comp = [r for r in rows if r.get("compiled")]
    surv = [r for r in comp if not r.get("caught_by")]
    with open("mutants/AUTO_SUMMARY.txt", "w") as f:
        f.write("%d mutants sampled, %d compile, %d caught, %d survived\n" % (len(rows), len(comp), len(comp) - len(surv), len(surv)))
        for r in surv:
            f.write("SURVIVED %s:%d  %s   [%s] => [%s]\n" % (r["file"], r["line"], r["op"], r["before"], r["after"]))
    print(open("mutants/AUTO_SUMMARY.txt").read())


if __name__ == "__main__":
    main()
