#!/bin/bash
# tools/silence_seeds.sh [seeds...] : every quick check on the unchanged tree under several VERIF_SEED values (background snapshot run:
#   vp run --with-repo -- tools/silence_seeds.sh 1 2 3).  Any line with exit!=0 is a false alarm or an engine problem to look at.
ROOT="$(cd "$(dirname "$(readlink -f "$0")")/.." && pwd)"; cd "$ROOT" || exit 2
REPO="${VP_RUN_REPO:-/repo}"
if [ "$REPO" != "/repo" ]; then sed -i "s#\"/repo\"#\"$REPO\"#" harness/Cargo.toml tsan/Cargo.toml sentinel/Cargo.toml harness/fuzz/Cargo.toml 2>/dev/null; fi
OUT=SILENCE_RESULTS.txt; : > $OUT
for seed in ${@:-1 2 3}; do
  for id in C01 C02 C03 C04 C05 C06 C07 C08 C09 C10 C11 C12 C13 C14 C15 C16 C17 C18 C19 C20; do
    out=$(VERIF_SEED=$seed ./run $id ${TIER:-quick} 2>&1); rc=$?
    echo "seed=$seed $id exit=$rc $(echo "$out" | grep -E " (quick|thorough): " | head -1)" >> $OUT
    [ $rc -ne 0 ] && echo "$out" | grep -E "VIOLATION|INCONCLUSIVE" | cut -c1-400 | head -5 >> $OUT
    [ $rc -eq 1 ] && for f in replays/$id-*.json; do echo "--- $f" >> $OUT; head -c 3000 $f >> $OUT; done
  done
done
cat $OUT
