#!/bin/bash
# tools/seeds_rerun_all.sh : re-run every confirmed seeded change against the current checks.
# Meant for a background snapshot run:  vp run --with-repo -- tools/seeds_rerun_all.sh
# optional arguments: the seed tags to re-run (default: all); RERUN_OUT=<file> for the result file
# (uses $VP_RUN_REPO as the repository copy; falls back to /repo when run by hand - then /repo must be clean and idle)
ROOT="$(cd "$(dirname "$(readlink -f "$0")")/.." && pwd)"; cd "$ROOT" || exit 2
REPO="${VP_RUN_REPO:-/repo}"
if [ "$REPO" != "/repo" ]; then sed -i "s#\"/repo\"#\"$REPO\"#" harness/Cargo.toml tsan/Cargo.toml sentinel/Cargo.toml; fi
OUT=${RERUN_OUT:-seeded/RESULTS_ALL.txt}; : > $OUT
cp -r evidence work_evidence_keep 2>/dev/null
LIST="${@:-$(ls -d seeded/C*/ | xargs -n1 basename)}"
for tag in $LIST; do
  d=seeded/$tag; prop=${tag:0:3}
  git -C "$REPO" checkout -q -- . 
  if ! git -C "$REPO" apply "$ROOT/$d/patch.diff" 2>/dev/null; then echo "$tag patch-does-not-apply" >> $OUT; continue; fi
  out=$(./run $prop quick 2>&1); rc=$?
  line=$(echo "$out" | grep " quick: " | head -1)
  echo "$tag exit=$rc $line" >> $OUT
  git -C "$REPO" checkout -q -- .
done
rm -rf evidence; mv work_evidence_keep evidence 2>/dev/null
cat $OUT
