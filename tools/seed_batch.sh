#!/bin/bash
# tools/seed_batch.sh <tag>... : verify each seeded change in its worktree, then run its property's quick check against it
cd /verif
for tag in "$@"; do
  prop=${tag:0:3}
  echo "######## $tag"
  tools/seed_verify.sh $tag 2>&1 | grep -E "^==|^test result" | head -8
  tools/seed_run.sh /tmp/seed_out/$tag/patch.diff $prop 2>&1 | grep -E "quick:|exit=|apply|INCONCLUSIVE" | head -4
done
