#!/bin/bash
# tools/seed_verify.sh <ID> : confirm a sub-agent's seeded change in its scratch worktree
#   (demo fails with the change, passes without, existing tests pass with the change)
TAG=$1; ID=$TAG; WT=/tmp/seed_$TAG; OUT=/tmp/seed_out/$TAG
cd $WT || exit 2
CMD=$(python3 -c "import json,re;print(re.split(r'\s{2,}\(', json.load(open('$OUT/meta.json'))['demo_cmd'])[0])")
echo "demo_cmd: $CMD"
echo "== with change"; (eval "$CMD") 2>&1 | grep -E "^test result|panicked|FAILED|error(\[|:)" | head -8
git diff -- src/ > /tmp/seed_verify_$TAG.diff; git apply -R /tmp/seed_verify_$TAG.diff && echo "== without change" && (eval "$CMD") 2>&1 | grep -E "^test result|panicked|FAILED|error(\[|:)" | head -5; git apply /tmp/seed_verify_$TAG.diff; rm -f /tmp/seed_verify_$TAG.diff
echo "== existing suite with change"; (mv tests/seed_demo.rs /tmp/seed_demo_$ID.rs; cargo test --workspace --no-fail-fast --offline 2>&1 | grep -E "^test result|FAILED|error" | head -6; mv /tmp/seed_demo_$ID.rs tests/seed_demo.rs)
git diff --stat -- src/
