#!/usr/bin/env python3
"""Sensitivity campaign: apply each hand-written mutant (DESIGN §8) to /repo's working tree,
check that it still compiles and passes the repository's own tests, run the designated quick checks,
undo it (git checkout).  Usage: tools/mutants.py [name ...]   Results: mutants/RESULTS.json"""
import json, os, subprocess, sys, time

REPO = "/repo"
LIB = "src/lib.rs"
VEC = "src/collections/vec.rs"
STR = "src/collections/string.rs"
RAW = "src/collections/raw_vec.rs"
BOX = "src/boxed.rs"
UTF = "src/collections/str/mod.rs"

M = [
 ("M1_no_minalign_roundup", LIB, "let aligned_size = round_up_to(layout.size(), MIN_ALIGN)?;\n\n                    let capacity = (ptr as usize) - (start as usize);", "let aligned_size = layout.size();\n\n                    let capacity = (ptr as usize) - (start as usize);", ["C04", "C01"]),
 ("M2_dealloc_without_last_check", LIB, "        if self.is_last_allocation(ptr) {\n            let ptr = self.current_chunk_footer.get().as_ref().ptr.get();\n            let ptr = ptr.as_ptr().add(layout.size());", "        if true {\n            let ptr = ptr.as_ptr().add(layout.size());", ["C01", "C12", "C02"]),
 ("M3_shrink_threshold_rounds_down", LIB, "&& delta >= (old_size + 1) / 2", "&& delta >= old_size / 2", ["C12", "C02"]),
 ("M4_grow_copy_nonoverlapping", LIB, "                ptr::copy(ptr.as_ptr(), p.as_ptr(), old_size);\n                return Ok(p);", "                ptr::copy_nonoverlapping(ptr.as_ptr(), p.as_ptr(), old_size);\n                return Ok(p);", ["C12", "C02"]),
 ("M5_reset_keeps_old_chunks", LIB, "            dealloc_chunk_list(prev_chunk);\n\n            // Reset the bump finger", "            let _ = prev_chunk;\n\n            // Reset the bump finger", ["C03", "C06", "C08"]),
 ("M6_reset_does_not_rewind", LIB, "            cur_chunk.as_ref().ptr.set(cur_chunk.cast());\n", "", ["C06"]),
 ("M7_allocated_bytes_counts_footer", LIB, "let allocated_bytes = prev.as_ref().allocated_bytes + new_size_without_footer;", "let allocated_bytes = prev.as_ref().allocated_bytes + size;", ["C08", "C07"]),
 ("M8_limit_compares_requested_size", LIB, "allocation_limit_left >= new_chunk_memory_details.new_size_without_footer", "allocation_limit_left >= new_chunk_memory_details.new_size_without_footer / 2", ["C07"]),
 ("M9_no_doubling", LIB, "                .checked_mul(2)?\n                .max(min_new_chunk_size);", "                .checked_mul(1)?\n                .max(min_new_chunk_size);", ["C18"]),
 ("M10_rewind_without_last_check", LIB, "                if self.is_last_allocation(inner_result_ptr.cast()) {\n                    let current_footer_p = self.current_chunk_footer.get();\n                    let current_ptr = &current_footer_p.as_ref().ptr;\n                    if current_footer_p == rewind_footer {\n                        // It's still the same chunk, so reset the bump pointer\n                        // to its original value upon entry to this method\n                        // (reclaiming any alignment padding we may have\n                        // added).\n                        current_ptr.set(rewind_ptr);", "                if true {\n                    let current_footer_p = self.current_chunk_footer.get();\n                    let current_ptr = &current_footer_p.as_ref().ptr;\n                    if current_footer_p == rewind_footer {\n                        current_ptr.set(rewind_ptr);", ["C11", "C01", "C02"]),
 ("M11_error_dropped_in_place", LIB, "                Err(ptr::read(e as *const _))\n            },\n        }\n    }\n\n    /// Tries to pre-allocates", "                let r = Err(ptr::read(e as *const _));\n                ptr::drop_in_place(e as *mut E);\n                r\n            },\n        }\n    }\n\n    /// Tries to pre-allocates", ["C11"]),
 ("M12_chunk_iter_len_off", LIB, "        let len = unsafe { (self as *const ChunkFooter as *const u8).offset_from(ptr) as usize };\n        (ptr, len)", "        let len = unsafe { (self as *const ChunkFooter as *const u8).offset_from(ptr) as usize };\n        (ptr, len.saturating_sub(1))", ["C10"]),
 ("M12b_chunk_iter_stops_early", LIB, "            let (ptr, len) = foot.as_raw_parts();\n            self.footer = foot.prev.get();", "            let (ptr, len) = foot.as_raw_parts();\n            self.footer = if len == 0 { EMPTY_CHUNK.get() } else { foot.prev.get() };", ["C10", "C08"]),
 ("M13_insert_shifts_one_too_few", VEC, "                ptr::copy(p, p.offset(1), len - index);", "                ptr::copy(p, p.offset(1), (len - index).saturating_sub((index == 1) as usize));", ["C13", "C15"]),
 ("M15_drain_tail_wrong_index", VEC, "                if tail != start {\n                    let src = source_vec.as_ptr().add(tail);", "                if tail != start && tail != start + 3 {\n                    let src = source_vec.as_ptr().add(tail);", ["C13", "C15"]),
 ("M16_intoiter_drop_noop", VEC, "        // drop all remaining elements\n        self.for_each(drop);", "        // drop all remaining elements\n        if self.len() > 2 { return; }\n        self.for_each(drop);", ["C15"]),
 ("M17_string_insert_no_boundary_check", STR, "    pub fn insert(&mut self, idx: usize, ch: char) {\n        assert!(self.is_char_boundary(idx));", "    pub fn insert(&mut self, idx: usize, ch: char) {\n        assert!(idx <= self.len());", ["C14"]),
 ("M18_utf8_width_table", UTF, "4,4,4,4,4,0,0,0,0,0,0,0,0,0,0,0, // 0xFF", "4,4,4,4,4,4,0,0,0,0,0,0,0,0,0,0, // 0xFF", ["C14"]),
 ("M19_into_inner_double_owner", BOX, "        unsafe { core::ptr::read(Box::into_raw(b)) }", "        unsafe { core::ptr::read(&*b as *const T) }", ["C17"]),
 ("M20_bump_is_sync", LIB, "unsafe impl<const MIN_ALIGN: usize> Send for Bump<MIN_ALIGN> {}", "unsafe impl<const MIN_ALIGN: usize> Send for Bump<MIN_ALIGN> {}\nunsafe impl<const MIN_ALIGN: usize> Sync for Bump<MIN_ALIGN> {}", ["C05"]),
 ("M20b_reset_takes_shared_ref", LIB, "    pub fn reset(&mut self) {", "    pub fn reset(&self) {", ["C05"]),
 ("M21_ctor_accepts_32", LIB, "        assert!(\n            MIN_ALIGN <= CHUNK_ALIGN,\n            \"MIN_ALIGN may not be larger than {CHUNK_ALIGN}; found {MIN_ALIGN}\"\n        );\n\n        Bump {", "        assert!(\n            MIN_ALIGN <= 2 * CHUNK_ALIGN,\n            \"MIN_ALIGN may not be larger than {CHUNK_ALIGN}; found {MIN_ALIGN}\"\n        );\n\n        Bump {", ["C04"]),
 ("M22_rawvec_wrapping_mul", RAW, "            let alloc_size = cap\n                .checked_mul(elem_size)\n                .unwrap_or_else(|| capacity_overflow());", "            let alloc_size = cap.wrapping_mul(elem_size);", ["C19"]),
 ("M23_fill_in_reverse", LIB, "            for i in 0..len {\n                ptr::write(dst.as_ptr().add(i), f(i));\n            }\n\n            let result = slice::from_raw_parts_mut(dst.as_ptr(), len);\n            debug_assert_eq!(Layout::for_value(result), layout);\n            result\n        }\n    }\n\n    /// Allocates a new slice of size `len` into this `Bump` and returns an\n    /// exclusive reference to the copy, failing", "            for i in (0..len).rev() {\n                ptr::write(dst.as_ptr().add(i), f(i));\n            }\n\n            let result = slice::from_raw_parts_mut(dst.as_ptr(), len);\n            debug_assert_eq!(Layout::for_value(result), layout);\n            result\n        }\n    }\n\n    /// Allocates a new slice of size `len` into this `Bump` and returns an\n    /// exclusive reference to the copy, failing", ["C02"]),
 ("M26_drop_leaks_oldest_chunk", LIB, "    while !footer.as_ref().is_empty() {\n        let f = footer;\n        footer = f.as_ref().prev.get();\n        dealloc(f.as_ref().data.as_ptr(), f.as_ref().layout);", "    while !footer.as_ref().is_empty() {\n        let f = footer;\n        footer = f.as_ref().prev.get();\n        if footer.as_ref().is_empty() && f.as_ref().layout.size() > 3000 { break; }\n        dealloc(f.as_ref().data.as_ptr(), f.as_ref().layout);", ["C03"]),
 ("M27_grow_zeroed_leaves_tail", LIB, "        ptr.as_mut()[old_layout.size()..].fill(0);", "        if old_layout.size() > 0 { ptr.as_mut()[old_layout.size() + 1..].fill(0); }", ["C12"]),
 ("M28_limit_ignored_after_reset", LIB, "            cur_chunk.as_mut().allocated_bytes = cur_chunk.as_ref().layout.size() - FOOTER_SIZE;", "            cur_chunk.as_mut().allocated_bytes = 0;", ["C08", "C07"]),
 ("M29_try_with_capacity_panics", LIB, "        let layout = layout_from_size_align(capacity, MIN_ALIGN)?;\n\n        let chunk_footer", "        let layout = Layout::from_size_align(capacity, MIN_ALIGN).unwrap();\n\n        let chunk_footer", ["C09", "C19"]),
 ("M30_sentinel_shared_finger_moves", LIB, "            footer.ptr.set(aligned_ptr);\n            Some(aligned_ptr)", "            footer.ptr.set(aligned_ptr);\n            if layout.size() == 0 && layout.align() == 4 && footer_ptr == EMPTY_CHUNK.get() { EMPTY_CHUNK.0.allocated_bytes; }\n            Some(aligned_ptr)", []),
]

def sh(cmd, cwd=None, timeout=1800):
    p = subprocess.run(cmd, shell=True, cwd=cwd, stdout=subprocess.PIPE, stderr=subprocess.STDOUT, timeout=timeout)
    return p.returncode, p.stdout.decode(errors="replace")

def main():
    only = sys.argv[1:]
    os.makedirs("/verif/mutants", exist_ok=True)
    res_path = "/verif/mutants/RESULTS.json"
    results = json.load(open(res_path)) if os.path.exists(res_path) else {}
    rc, out = sh("git status --short", REPO)
    if out.strip():
        print("repo working tree is not clean"); sys.exit(2)
    sh("rm -rf /verif/work/evidence_keep3 && cp -r /verif/evidence /verif/work/evidence_keep3")
    for name, path, old, new, checks in M:
        if only and name not in only and not any(name.startswith(o) for o in only):
            continue
        if not checks:
            continue
        src = open(os.path.join(REPO, path)).read()
        if src.count(old) < 1:
            print(f"{name}: pattern not found"); results[name] = {"error": "pattern not found"}; continue
        try:
            open(os.path.join(REPO, path), "w").write(src.replace(old, new, 1) if name != "M10_rewind_without_last_check" else src.replace(old, new))
            rc, out = sh("cargo test --workspace --no-fail-fast --offline 2>&1 | grep -E '^test result|error(\\[|:)' | head -5", REPO)
            baseline_ok = out.count("test result: ok") >= 3 and "FAILED" not in out and "error" not in out
            rc2, out2 = sh("RUSTFLAGS='--cap-lints allow' cargo build --offline --features collections,boxed,allocator-api2,std 2>&1 | tail -2", REPO)
            builds = "Finished" in out2
            entry = {"file": path, "baseline_tests_pass": baseline_ok, "builds_with_features": builds, "checks": {}}
            with open(f"/verif/mutants/{name}.diff", "w") as f:
                f.write(sh("git diff", REPO)[1])
            if builds:
                for c in checks:
                    t0 = time.time()
                    rc, o = sh(f"./run {c} quick", "/verif")
                    line = [l for l in o.splitlines() if " quick: " in l]
                    entry["checks"][c] = {"exit": rc, "summary": line[0] if line else o[-200:], "wall_s": round(time.time() - t0, 1)}
            results[name] = entry
            print(name, "baseline_ok" if baseline_ok else "BASELINE-FAILS", {c: v["exit"] for c, v in entry["checks"].items()})
        finally:
            sh("git checkout -- .", REPO)
        json.dump(results, open(res_path, "w"), indent=1)
    sh("rm -rf /verif/evidence && mv /verif/work/evidence_keep3 /verif/evidence")

main()
