#!/bin/bash
# tools/seeds_rerun.sh : apply every confirmed seeded change in turn, run its property's quick check, undo; writes seeded/RESULTS.txt
cd /verif; : > seeded/RESULTS.txt
rm -rf work/evidence_keep2 && cp -r evidence work/evidence_keep2
for d in seeded/C*/; do
  id=$(basename $d)
  (cd /repo && git apply /verif/$d/patch.diff) || { echo "$id patch-does-not-apply" >> seeded/RESULTS.txt; continue; }
  prop=${id:0:3}; out=$(VERIF_SEED=${VERIF_SEED:-0} ./run $prop quick 2>&1); rc=$?
  line=$(echo "$out" | grep " quick: " | head -1)
  echo "$id exit=$rc $line" >> seeded/RESULTS.txt
  git -C /repo checkout -- .
done
rm -rf evidence && mv work/evidence_keep2 evidence
cat seeded/RESULTS.txt
