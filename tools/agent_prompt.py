import json,sys
pid=sys.argv[1]
for l in open('/verif/properties.jsonl'):
    p=json.loads(l)
    if p['id']==pid:
        break
print(f"""You are helping test a verification effort by playing the role of a developer who accidentally introduces a subtle bug.

The codebase is the Rust crate `bumpalo` (a bump-allocation arena). You have your own scratch git worktree of it at /tmp/seed_{pid} (work ONLY inside that directory and /tmp/seed_out/{pid}; do not touch /repo or any other path). Everything is offline: build/test with `cargo test --workspace --no-fail-fast --offline` (run inside /tmp/seed_{pid}); to use the optional features compile tests with `--features collections,boxed,allocator-api2,std` and, because of a deny-by-default lint on this compiler, set RUSTFLAGS="--cap-lints allow" when those features are on.

Here is a semantic property that the crate is supposed to satisfy:

PROPERTY {pid}: {p['title']}
{p['statement']}
(It is meant to hold: {p['quantifier']['text']})

YOUR TASK: make ONE small, realistic source change to the crate (in src/) that BREAKS this property, while
  (a) the crate still compiles (with and without the optional features), and
  (b) the existing test suite still passes completely: `cargo test --workspace --no-fail-fast --offline` in /tmp/seed_{pid} must report the same passes as before your change (run it before and after).
The change should look like a plausible mistake or 'optimisation' a maintainer could make (an off-by-one, a dropped rounding, a wrong comparison, a missed case, a reordered pair of statements, two sites that each look fine alone...), NOT a blatant sabotage, and it must need something SPECIFIC to manifest: a particular multi-step sequence of operations, an unusual size/alignment/capacity, a particular minimum alignment, a fault (the global allocator refusing a request) or panic at a particular point, etc. Ordinary simple use (allocate a few values, read them back) should still work, so that the bug is not exposed at once.

Then write a DEMONSTRATION: a small Rust integration test file (put it at /tmp/seed_{pid}/tests/seed_demo.rs; it may use only the crate's public API, std, and if needed the optional features) that FAILS (assertion failure, crash, or sanitizer-free observable misbehaviour) with your change and PASSES without it. Verify both directions yourself: run it with the change applied, then remove only the src/ change (`git apply -R` of your saved patch; never `git stash`), run it again to see it pass, and restore the change. Note: tests/seed_demo.rs is a new test target; Cargo.toml declares tests explicitly only for try_alloc, other files in tests/ are auto-discovered; if your demo needs optional features, say exactly which command runs it.

DELIVERABLES, all under /tmp/seed_out/{pid}/ :
  - patch.diff : output of `git -C /tmp/seed_{pid} diff -- src/` (ONLY the src/ change, not the demo)
  - seed_demo.rs : copy of the demonstration test
  - meta.json : {{"property": "{pid}", "summary": "<one paragraph: what the change is>", "needs": "<what specific situation is needed for it to manifest>", "demo_cmd": "<exact command that runs the demo>", "fails_with_change": "<the observed failure output, briefly>", "passes_without_change": true, "existing_tests_pass_with_change": true}}
Leave the worktree with the change applied and the demo in place. Do not commit anything. Keep build output modest (do not create extra target directories outside the worktree). In your final answer, summarise the change, what it needs to manifest, and the exact demo command and results.""")
