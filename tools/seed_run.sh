#!/bin/bash
# tools/seed_run.sh <patch.diff> <ID> [<ID>...] : apply a seeded change to /repo, run the quick checks, undo
P=$1; shift
# evidence files must always describe the unchanged tree: keep them aside while a seeded change is applied
rm -rf /verif/work/evidence_keep && cp -r /verif/evidence /verif/work/evidence_keep
cd /repo || exit 2
if ! git apply --check "$P" 2>/dev/null; then echo "patch does not apply cleanly, trying 3-way"; git apply -3 "$P" || exit 2; else git apply "$P"; fi
for id in "$@"; do (cd /verif && VERIF_SEED=${VERIF_SEED:-0} ./run $id ${TIER:-quick} 2>&1 | grep -E "VIOLATION|violations|INCONCLUSIVE|KNOWN" | head -4; echo "  -> $id exit=${PIPESTATUS[0]}"); done
git -C /repo checkout -- . ; git -C /repo status --short | head -3
rm -rf /verif/evidence && mv /verif/work/evidence_keep /verif/evidence
