#!/bin/bash
# tools/seed_save.sh <ID> <caught-by text> : store a confirmed seeded change under /verif/seeded/<ID>/ (patch rebased on /repo HEAD) and drop the worktree
ID=$1; shift; NOTE="$*"
OUT=/tmp/seed_out/$ID; DST=/verif/seeded/$ID; mkdir -p $DST
cd /repo || exit 2
git apply "$OUT/patch.diff" 2>/dev/null || git apply -3 "$OUT/patch.diff" || exit 2
git diff HEAD -- src/ > $DST/patch.diff
git reset -q; git checkout -- .
cp $OUT/seed_demo.rs $DST/seed_demo.rs
python3 - "$ID" "$NOTE" <<'PY'
import json,sys,subprocess
id,note=sys.argv[1],sys.argv[2]
m=json.load(open(f'/tmp/seed_out/{id}/meta.json'))
m['confirmed_by_me']={'what_i_ran':[f"tools/seed_verify.sh {id}: demo fails with the change, passes with src/ stashed, existing suite (3+35+43) passes with the change", f"tools/seed_run.sh /verif/seeded/{id}/patch.diff <checks>: applied to /repo, ran the quick checks, undone with git checkout"],'result':note,'repo_head':subprocess.check_output(['git','-C','/repo','rev-parse','--short','HEAD']).decode().strip()}
m['demo_cmd']=m['demo_cmd'].replace(f'/tmp/seed_{id}','<worktree with seeded/%s/patch.diff applied and seed_demo.rs copied to tests/>'%id)
json.dump(m,open(f'/verif/seeded/{id}/meta.json','w'),indent=1)
PY
git -C /repo worktree remove --force /tmp/seed_$ID 2>/dev/null; rm -rf /tmp/seed_$ID
ls $DST
