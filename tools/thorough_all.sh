#!/bin/bash
# tools/thorough_all.sh : run every thorough tier once (background snapshot run: vp run --with-repo -- tools/thorough_all.sh)
ROOT="$(cd "$(dirname "$(readlink -f "$0")")/.." && pwd)"; cd "$ROOT" || exit 2
REPO="${VP_RUN_REPO:-/repo}"
if [ "$REPO" != "/repo" ]; then sed -i "s#\"/repo\"#\"$REPO\"#" harness/Cargo.toml tsan/Cargo.toml sentinel/Cargo.toml harness/fuzz/Cargo.toml 2>/dev/null; fi
OUT=THOROUGH_RESULTS.txt; : > $OUT
for id in ${@:-C01 C02 C03 C04 C05 C06 C07 C08 C09 C10 C11 C12 C13 C14 C15 C16 C17 C18 C19 C20}; do
  t0=$(date +%s)
  out=$(./run $id thorough 2>&1); rc=$?
  echo "$id exit=$rc $(( $(date +%s) - t0 ))s $(echo "$out" | grep -E " thorough: " | head -1)" >> $OUT
  echo "$out" | grep -E "VIOLATION|INCONCLUSIVE|KNOWN-FINDING" | cut -c1-300 | head -5 >> $OUT
done
cat $OUT
