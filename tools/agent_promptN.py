# tools/agent_promptN.py <ID> <round> : text handed to a fresh sub-agent for a seeding round (property text + what earlier seeds did; nothing from /verif's checks)
import json,sys,subprocess,os
pid=sys.argv[1]; rnd=sys.argv[2]
prevs=[]
for suf in ['','r2','r3','r4','r5','r6','r7','r8','r9','r10']:
    f=f'/verif/seeded/{pid}{suf}/meta.json'
    if os.path.exists(f): prevs.append(json.load(open(f))['summary'][:380])
base=subprocess.check_output(['python3',os.path.join(os.path.dirname(os.path.abspath(__file__)),'agent_prompt.py'),pid]).decode()
tag=f'{pid}r{rnd}'
base=base.replace(f'/tmp/seed_{pid}',f'/tmp/seed_{tag}').replace(f'/tmp/seed_out/{pid}',f'/tmp/seed_out/{tag}')
lst='\n'.join(f'  Earlier change {i+1}: "{p}"' for i,p in enumerate(prevs))
extra=f"""

ADDITIONAL REQUIREMENT: {len(prevs)} other engineers already produced seeded changes for this property. Yours must be DIFFERENT from all of them, in kind and in location (another function or mechanism; another source file if the property involves several), and should break a part of the property's promise that none of them touches.
{lst}
Aim for subtlety: a change whose effect needs a multi-step history, a rarely used method, argument form or trait impl, a particular minimum alignment or element size (zero-sized, over-aligned, odd-sized types), an allocation failure or a panic at one particular point, a particular interleaving of several arenas or collections, or two sites that are each fine alone. The less frequently ordinary random use would stumble over it, the better - but it must be a real violation of the property as stated, and your demonstration must show it."""
extra+=f"""

IMPORTANT PROCESS NOTE: do NOT use `git stash` (the stash is shared by all worktrees of the repository and other engineers are working in sibling worktrees right now). To run your demonstration without your change, save the change first (`git -C /tmp/seed_{tag} diff -- src/ > /tmp/seed_out/{tag}/patch.diff`), remove it with `git -C /tmp/seed_{tag} apply -R /tmp/seed_out/{tag}/patch.diff`, run the demo, and re-apply it with `git -C /tmp/seed_{tag} apply /tmp/seed_out/{tag}/patch.diff`. Use at most 4 parallel cargo jobs (`-j4`); the machine is shared."""
print(base+extra)
