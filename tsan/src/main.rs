// one-off demonstration (pre-fix tree only): a Splice sent to another thread allocates in the arena there
use bumpalo::Bump;
fn main() {
    let b = Bump::new();
    let mut v = bumpalo::vec![in &b; 1u32, 2, 3];
    let n = std::hint::black_box(2000u32);
    let sp = v.splice(0..1, (0..n).filter(|x| x % 2 == 0));
    std::thread::scope(|s| {
        s.spawn(move || drop(sp));
        for i in 0..std::hint::black_box(2000u64) {
            b.alloc(i);
        }
    });
    println!("len {}", v.len());
}
