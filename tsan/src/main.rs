//! ThreadSanitizer part of C20: generated thread programs, each thread driving its own arena
//! (including chunk-less arenas, zero-sized requests and hand-over of an arena between threads).
//! Input: a file with one hex-encoded case per line. Every report TSan prints goes to stderr and is
//! classified by the caller (harness/src/multi_eng.rs).
use bumpalo::Bump;
use std::alloc::Layout;
use std::hint::black_box;
use std::sync::{mpsc, Arc, Barrier};

fn unhex(s: &str) -> Vec<u8> {
    (0..s.len() / 2).map(|i| u8::from_str_radix(&s[2 * i..2 * i + 2], 16).unwrap_or(0)).collect()
}

fn drive<const M: usize>(cap: usize, ops: Vec<(u8, u8)>, bar: Arc<Barrier>, tx: Option<mpsc::Sender<Bump<M>>>, rx: Option<mpsc::Receiver<Bump<M>>>) -> u64 {
    let mut b: Bump<M> = if cap == 0 { Bump::with_min_align() } else { Bump::with_min_align_and_capacity(cap) };
    let mut sum = 0u64;
    bar.wait();
    for (code, arg) in ops {
        match code % 7 {
            0 | 1 => {
                let l = Layout::from_size_align(black_box((arg % 64) as usize), black_box(1usize << (arg >> 6))).unwrap();
                let p = b.alloc_layout(l);
                if l.size() > 0 {
                    unsafe { p.as_ptr().write(arg) };
                }
                sum += p.as_ptr() as usize as u64 & 1;
            }
            2 => {
                let x = b.alloc(black_box(arg as u64));
                sum += *x;
            }
            3 => b.reset(),
            4 => {
                // zero-sized request with a small alignment: an arena without a chunk stays without one
                let l = Layout::from_size_align(black_box(0usize), black_box(1usize << (arg % 4).min(3))).unwrap();
                let p = b.alloc_layout(l);
                sum += p.as_ptr() as usize as u64 & 1;
            }
            5 => {
                drop(b);
                b = if arg & 1 == 0 { Bump::with_min_align() } else { Bump::with_min_align_and_capacity(arg as usize) };
            }
            _ => {
                sum += b.allocated_bytes() as u64 + b.chunk_capacity() as u64;
            }
        }
    }
    // hand-over: give the (idle) arena to the next thread, take one from the previous thread
    match (tx, rx) {
        (Some(tx), Some(rx)) => {
            tx.send(b).unwrap();
            let mut other = rx.recv().unwrap();
            let x = other.alloc(black_box(7u32));
            sum += *x as u64;
            other.reset();
            other.alloc_layout(Layout::from_size_align(black_box(0usize), black_box(1usize)).unwrap());
            drop(other);
        }
        _ => drop(b),
    }
    sum
}

fn run_case(bytes: &[u8]) -> u64 {
    let g = |i: usize| bytes.get(i).cloned().unwrap_or(0);
    let k = 2 + (g(0) % 3) as usize;
    let m_sel = g(1) % 3; // all threads of one case use the same MIN_ALIGN so that arenas can be handed over
    let handover = g(2) & 1 == 1;
    let mut per: Vec<Vec<(u8, u8)>> = vec![vec![]; k];
    for ch in bytes.get(3 + k..).unwrap_or(&[]).chunks(3) {
        let t = ch[0] as usize % k;
        per[t].push((ch.get(1).cloned().unwrap_or(0), ch.get(2).cloned().unwrap_or(0)));
    }
    fn go<const M: usize>(k: usize, caps: Vec<usize>, per: Vec<Vec<(u8, u8)>>, handover: bool) -> u64 {
        let bar = Arc::new(Barrier::new(k));
        let mut txs: Vec<Option<mpsc::Sender<Bump<M>>>> = vec![];
        let mut rxs: Vec<Option<mpsc::Receiver<Bump<M>>>> = vec![];
        for _ in 0..k {
            if handover {
                let (tx, rx) = mpsc::channel();
                txs.push(Some(tx));
                rxs.push(Some(rx));
            } else {
                txs.push(None);
                rxs.push(None);
            }
        }
        // thread i sends to i+1 and receives from i-1
        let mut handles = vec![];
        let mut rxs_rot: Vec<Option<mpsc::Receiver<Bump<M>>>> = (0..k).map(|_| None).collect();
        for i in 0..k {
            rxs_rot[i] = rxs[i].take();
        }
        for (i, ops) in per.into_iter().enumerate() {
            let tx = txs[(i + 1) % k].take();
            let rx = rxs_rot[i].take();
            let bar = bar.clone();
            let cap = caps[i];
            handles.push(std::thread::spawn(move || drive::<M>(cap, ops, bar, tx, rx)));
        }
        handles.into_iter().map(|h| h.join().unwrap()).sum()
    }
    let caps: Vec<usize> = (0..k).map(|i| if g(3 + i) & 1 == 0 { 0 } else { g(3 + i) as usize * 8 }).collect();
    match m_sel {
        0 => go::<1>(k, caps, per, handover),
        1 => go::<8>(k, caps, per, handover),
        _ => go::<16>(k, caps, per, handover),
    }
}

fn main() {
    let path = std::env::args().nth(1).expect("case file");
    let text = std::fs::read_to_string(path).expect("readable case file");
    let mut n = 0;
    let mut sum = 0u64;
    for line in text.lines() {
        let bytes = unhex(line.trim());
        if bytes.is_empty() {
            continue;
        }
        sum = sum.wrapping_add(run_case(&bytes));
        n += 1;
    }
    println!("TSAN-CASES {n} checksum {sum}");
}
