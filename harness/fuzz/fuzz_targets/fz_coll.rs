#![no_main]
//! Coverage-guided twin of the collections checks (C13 C14 C15): same slot machine and oracles.
use libfuzzer_sys::fuzz_target;
use vlib::coll_eng::run_coll_case;

fuzz_target!(|data: &[u8]| {
    vlib::runner::install_quiet_panic_hook();
    if data.is_empty() || data.len() > 5 * 60 {
        return;
    }
    let prop = std::env::var("VERIF_PROP").unwrap_or_default();
    let ctx = run_coll_case(data);
    for (p, m) in ctx.viol.iter() {
        if prop.is_empty() || *p == prop {
            eprintln!("FUZZ-VIOLATION property={} {}", p, m);
            std::process::abort();
        }
    }
});
