#![no_main]
//! Coverage-guided twin of the arena checks: the same decoder, interpreter and oracles as
//! `./run C01..C12,C18`, built with ASan, debug assertions and overflow checks.
//! VERIF_PROP selects whose violations stop the campaign (default: any arena property).
use libfuzzer_sys::fuzz_target;
use vlib::arena_eng::{mixed_mode, run_arena_case};

fuzz_target!(|data: &[u8]| {
    vlib::runner::install_quiet_panic_hook();
    if data.len() < 8 || data.len() > 8 + 4 * 80 {
        return;
    }
    let prop = std::env::var("VERIF_PROP").unwrap_or_default();
    let uniform = prop == "C10" && !mixed_mode(data);
    let r = run_arena_case(data, uniform, false);
    for v in r.viol.iter() {
        if prop.is_empty() || v.prop == prop {
            eprintln!("FUZZ-VIOLATION property={} op {}: {}", v.prop, v.op, v.msg);
            std::process::abort();
        }
    }
});
