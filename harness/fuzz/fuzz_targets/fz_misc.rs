#![no_main]
//! Coverage-guided twin of C09 (fault enumeration with twins), C16 (panic enumeration), C17 (Box)
//! and C20 (solo vs joint). The first byte selects the engine.
use libfuzzer_sys::fuzz_target;
use vlib::runner::Engine;

fuzz_target!(|data: &[u8]| {
    vlib::runner::install_quiet_panic_hook();
    if data.len() < 2 || data.len() > 400 {
        return;
    }
    let only = std::env::var("VERIF_PROP").unwrap_or_default();
    let (prop, out) = match data[0] % 4 {
        0 => ("C09", if data.len() <= 8 + 4 * 25 { vlib::multi_eng::C09Engine::new().run(&data[1..]) } else { return }),
        1 => ("C16", vlib::c16::C16Engine::new().run(&data[1..])),
        2 => ("C17", vlib::box_eng::C17Engine.run(&data[1..])),
        _ => ("C20", vlib::multi_eng::C20Engine.run(&data[1..])),
    };
    if !only.is_empty() && only != prop {
        return;
    }
    if let Some(m) = out.viol.first() {
        eprintln!("FUZZ-VIOLATION property={} {}", prop, m);
        std::process::abort();
    }
});
