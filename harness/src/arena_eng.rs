//! Engine for the properties decided by single-arena operation histories
//! (C01 C02 C03 C04 C06 C07 C08 C10 C11 C12 C18).

use crate::ledger;
use crate::ops::*;
use crate::runner::*;
use crate::sim::*;
use crate::types::tok_reset;
use proptest::prelude::*;
use proptest::strategy::BoxedStrategy;
use serde_json::{json, Value};
use std::collections::BTreeMap;
use std::sync::OnceLock;

pub trait SimDyn {
    fn construct(&mut self, hd: &Header) -> bool;
    fn step(&mut self, op: Op);
    fn finish(&mut self);
    fn viol(&self) -> &[Violation];
    fn stats(&self) -> &[u32; NST];
    fn trace(&self) -> &[TraceItem];
    fn alive(&self) -> bool;
    fn nchunks(&self) -> usize;
}
impl<const M: usize> SimDyn for Sim<M> {
    fn construct(&mut self, hd: &Header) -> bool {
        Sim::<M>::construct(self, hd)
    }
    fn step(&mut self, op: Op) {
        Sim::<M>::step(self, op)
    }
    fn finish(&mut self) {
        Sim::<M>::finish(self)
    }
    fn viol(&self) -> &[Violation] {
        &self.viol
    }
    fn stats(&self) -> &[u32; NST] {
        &self.stats
    }
    fn trace(&self) -> &[TraceItem] {
        &self.trace
    }
    fn alive(&self) -> bool {
        self.bump.is_some() && !self.dropped
    }
    fn nchunks(&self) -> usize {
        self.chunks.len()
    }
}

pub fn k_meta() -> usize {
    static K: OnceLock<usize> = OnceLock::new();
    *K.get_or_init(measure_k)
}

/// address of the static empty sentinel (learned from a zero-sized request on a fresh arena)
pub fn learn_sentinel() -> usize {
    static S: OnceLock<usize> = OnceLock::new();
    *S.get_or_init(|| {
        let b = bumpalo::Bump::new();
        let p = b.alloc_layout(std::alloc::Layout::from_size_align(0, 1).unwrap()).as_ptr() as usize;
        let chunkless = unsafe { b.iter_allocated_chunks_raw().count() } == 0;
        if chunkless && in_static_mapping(p) {
            p
        } else {
            0
        }
    })
}

fn in_static_mapping(addr: usize) -> bool {
    let Ok(maps) = std::fs::read_to_string("/proc/self/maps") else {
        return false;
    };
    let exe = std::env::current_exe().ok().and_then(|p| p.to_str().map(|s| s.to_string())).unwrap_or_default();
    for line in maps.lines() {
        let mut it = line.split_whitespace();
        let (Some(range), Some(perms)) = (it.next(), it.next()) else {
            continue;
        };
        let path = line.split_whitespace().nth(5).unwrap_or("");
        let Some((lo, hi)) = range.split_once('-') else {
            continue;
        };
        let (Ok(lo), Ok(hi)) = (usize::from_str_radix(lo, 16), usize::from_str_radix(hi, 16)) else {
            continue;
        };
        if addr >= lo && addr + 48 <= hi && perms.starts_with('r') && (path == exe || path.is_empty() || path.contains("vharness") || !path.starts_with('[')) {
            return true;
        }
    }
    false
}

pub fn make_sim(m: usize, id: u32, opts: SimOpts) -> Box<dyn SimDyn> {
    let k = k_meta();
    match m {
        1 => Box::new(Sim::<1>::new(id, k, opts)),
        2 => Box::new(Sim::<2>::new(id, k, opts)),
        4 => Box::new(Sim::<4>::new(id, k, opts)),
        8 => Box::new(Sim::<8>::new(id, k, opts)),
        _ => Box::new(Sim::<16>::new(id, k, opts)),
    }
}

pub fn split_case(bytes: &[u8]) -> ([u8; 8], Vec<Op>) {
    let mut h = [0u8; 8];
    for i in 0..8 {
        h[i] = bytes.get(i).cloned().unwrap_or(0);
    }
    let ops = bytes.get(8..).unwrap_or(&[]).chunks(4).map(|c| Op { code: c[0], a: *c.get(1).unwrap_or(&0), b: *c.get(2).unwrap_or(&0), c: *c.get(3).unwrap_or(&0) }).collect();
    (h, ops)
}

pub fn describe_op(op: &Op) -> String {
    let code = op.code % NOPS;
    let name = OP_NAMES[code as usize];
    match code {
        0 | 6 => format!("{name}(size={}, align={}, a={:#04x})", map_size(op.b, op.c), map_align(op.a >> 1), op.a),
        8 => format!("{name}(delta={}, a={:#04x})", map_size(op.b, op.c), op.a),
        _ => format!("{name}(a={:#04x}, b={}, c={})", op.a, op.b, op.c),
    }
}

pub fn describe_case(bytes: &[u8], uniform: bool) -> Value {
    let (h, ops) = split_case(bytes);
    let hd = decode_header(&h);
    json!({
        "min_align": hd.m,
        "constructor_family": if hd.m == 1 && hd.ctor & 8 != 0 { "Bump::new / try_new / with_capacity / try_with_capacity (spelled below with their MIN_ALIGN-generic names)" } else { "generic" },
        "constructor": match (hd.ctor % 4, hd.ctor & 4 != 0) { (0, false) => "with_min_align".to_string(), (0, true) => "default".to_string(), (_, false) => format!("with_min_align_and_capacity({})", hd.cap), (_, true) => format!("try_with_min_align_and_capacity({})", hd.cap) },
        "placement": format!("{:?}", hd.placement),
        "fault_plan": format!("{:?}", hd.plan),
        "uniform_align": if uniform { json!(uniform_align(&h, hd.m)) } else { Value::Null },
        "ops": ops.iter().map(describe_op).collect::<Vec<_>>(),
    })
}

pub fn uniform_align(h: &[u8; 8], m: usize) -> usize {
    // an alignment in {1,2,4,8,16} that is at least the minimum alignment
    let choices: Vec<usize> = [1usize, 2, 4, 8, 16].iter().cloned().filter(|&a| a >= m).collect();
    choices[(h[6] as usize) % choices.len()]
}

#[derive(Clone)]
pub struct Profile {
    pub weights: [u32; NOPS as usize],
    pub max_ops: usize,
    pub uniform: bool,
    pub plan_prob: u32, // out of 16: header gets a fault plan
    pub big_sizes: bool,
}

pub fn profile_for(prop: &str) -> Profile {
    //            lay typ tw  sl  tf  str alc dea gro shr rst lim pln prb hov rrf
    let base = [20, 10, 8, 8, 5, 3, 8, 8, 8, 8, 3, 2, 1, 2, 1, 2];
    let mut p = Profile { weights: base, max_ops: 60, uniform: false, plan_prob: 2, big_sizes: true };
    match prop {
        "C01" => {}
        "C02" => {
            // more str operations: a quarter of them are collections / boxes handed over to the arena
            p.weights[5] = 9;
        }
        "C03" => {
            p.weights = [20, 6, 6, 6, 3, 2, 6, 4, 5, 3, 6, 3, 4, 1, 5, 3];
            p.plan_prob = 6;
        }
        "C04" => {
            p.weights = [24, 12, 6, 6, 3, 2, 10, 8, 8, 8, 3, 1, 0, 1, 1, 2];
            p.max_ops = 40;
        }
        "C06" => {
            p.weights = [20, 8, 6, 6, 4, 2, 6, 5, 5, 4, 8, 4, 1, 1, 1, 10];
        }
        "C07" | "C08" => {
            p.weights = [24, 8, 6, 6, 4, 2, 6, 4, 5, 3, 5, 12, 2, 1, 1, 4];
        }
        "C10" => {
            p.weights = [20, 12, 14, 10, 10, 3, 2, 2, 2, 1, 3, 2, 1, 0, 0, 4];
            p.uniform = true;
            p.max_ops = 70;
        }
        "C11" => {
            p.weights = [16, 6, 24, 5, 16, 2, 5, 4, 3, 2, 3, 3, 2, 1, 0, 2];
        }
        "C12" => {
            p.weights = [8, 4, 3, 3, 2, 1, 18, 14, 18, 16, 3, 2, 2, 1, 0, 2];
        }
        "C18" => {
            p.weights = [30, 10, 4, 10, 2, 3, 6, 3, 4, 2, 2, 0, 0, 8, 1, 3];
            p.plan_prob = 0;
            p.max_ops = 80;
        }
        _ => {}
    }
    p
}

fn size_byte() -> BoxedStrategy<u8> {
    prop_oneof![
        55 => 0u8..128,
        15 => 128u8..192,
        16 => 192u8..224,
        10 => 224u8..248,
        2 => 248u8..=255,
        2 => Just(0u8),
    ]
    .boxed()
}

pub fn arena_strategy(p: &Profile) -> BoxedStrategy<Vec<u8>> {
    let weights = p.weights;
    let codes: Vec<(u32, u8)> = weights.iter().enumerate().filter(|(_, w)| **w > 0).map(|(i, w)| (*w, i as u8)).collect();
    let code = proptest::sample::select(
        codes.iter().flat_map(|(w, c)| std::iter::repeat(*c).take(*w as usize)).collect::<Vec<u8>>(),
    );
    let op = (code, any::<u8>(), size_byte(), any::<u8>()).prop_map(|(c, a, b, d)| [c, a, b, d]);
    let plan_prob = p.plan_prob;
    let header = (0u8..5, any::<u8>(), size_byte(), any::<u8>(), 0u8..3, 0u8..16, any::<u8>(), any::<u8>()).prop_map(move |(m, ctor, c1, c2, pl, plan, p1, p2)| {
        let plan_byte = if (plan as u32) < plan_prob { 10 + (p1 % 6) } else { 0 };
        [m, ctor, c1, c2, pl, plan_byte, p1, p2]
    });
    (header, proptest::collection::vec(op, 0..=p.max_ops))
        .prop_map(|(h, ops)| {
            let mut v = Vec::with_capacity(8 + ops.len() * 4);
            v.extend_from_slice(&h);
            for o in ops {
                v.extend_from_slice(&o);
            }
            v
        })
        .boxed()
}

/// C10 runs half of its cases as uniform histories (exact tiling) and half as mixed ones (containment)
pub fn mixed_mode(bytes: &[u8]) -> bool {
    bytes.get(7).map_or(false, |b| b & 1 == 1)
}

pub struct ArenaRun {
    pub viol: Vec<Violation>,
    pub stats: [u32; NST],
    pub trace: Vec<TraceItem>,
    pub leaked_blocks: usize,
}

/// Execute one single-arena history.
pub fn run_arena_case(bytes: &[u8], uniform: bool, record_trace: bool) -> ArenaRun {
    let (h, _) = split_case(bytes);
    let hd = decode_header(&h);
    run_arena_case_opts(bytes, SimOpts { uniform: if uniform { Some(uniform_align(&h, hd.m)) } else { None }, record_trace, ..Default::default() })
}

pub fn run_arena_case_opts(bytes: &[u8], opts: SimOpts) -> ArenaRun {
    let (h, ops) = split_case(bytes);
    let hd = decode_header(&h);
    let _ = k_meta();
    let sent = learn_sentinel();
    ledger::begin_case(crate::runner::fnv(bytes));
    ledger::set_sentinel(sent);
    tok_reset();
    let mut sim = make_sim(hd.m, 1, opts);
    if sim.construct(&hd) {
        for op in ops {
            if !sim.alive() {
                break;
            }
            sim.step(op);
        }
    }
    sim.finish();
    let leaked = ledger::end_case();
    let mut viol = sim.viol().to_vec();
    if leaked > 0 && !viol.iter().any(|v| v.prop == "C03") {
        viol.push(Violation { prop: "C03", op: 0, msg: format!("{leaked} blocks still held from the global allocator after the arena was dropped") });
    }
    if ledger::overflowed() {
        viol.push(Violation { prop: "ENGINE", op: 0, msg: "ledger table overflow".into() });
    }
    ArenaRun { viol, stats: *sim.stats(), trace: sim.trace().to_vec(), leaked_blocks: leaked }
}

pub fn nontrivial(prop: &str, s: &[u32; NST]) -> bool {
    let g = |x: St| s[x as usize];
    match prop {
        "C01" => g(St::Live2) > 0 && (g(St::NewChunk) >= 2 || g(St::DeallocLast) + g(St::GrowInPlace) + g(St::ShrinkInPlace) + g(St::RewindSame) + g(St::RewindNewChunk) + g(St::Reset) > 0),
        "C02" => g(St::Ops) >= 6 && g(St::Live2) > 0 && (g(St::GrowInPlace) + g(St::ShrinkInPlace) + g(St::GrowMoved) + g(St::ShrinkMoved) + g(St::RewindSame) + g(St::RewindNewChunk) > 0),
        "C03" => (g(St::NewChunk) >= 2 && (g(St::ResetMulti) > 0 || g(St::ChunkFreed) >= 2)) || g(St::Refusal) > 0 || g(St::HandOver) > 0,
        "C04" => g(St::OddResidueAlign) > 0 || g(St::ZstOnChunkless) > 0,
        "C06" => (g(St::ResetMulti) > 0 || g(St::ResetPartial) > 0) && g(St::Refill) > 0,
        "C07" => g(St::LimitedChunkGranted) > 0 || (g(St::LimitedFail) > 0 && g(St::LimitSetOps) > 0),
        "C08" => (g(St::NewChunk) >= 2 && g(St::Reset) > 0) || g(St::AllocErr) + g(St::AllocPanic) > 0,
        "C10" => g(St::NewChunk) >= 2 && (g(St::InitErr) + g(St::FillFail) > 0 || (g(St::Reset) > 0 && g(St::Refill) > 0)),
        "C11" => g(St::RewindNewChunk) > 0 || g(St::InitKept) > 0,
        "C12" => g(St::GrowDiffAlign) > 0 || g(St::GrowFail) > 0 || g(St::GrowMoved) + g(St::ShrinkMoved) > 0,
        "C18" => g(St::NewChunk) >= 4,
        _ => g(St::Ops) > 0,
    }
}

pub fn rule_text(prop: &str) -> String {
    let nt = match prop {
        "C01" => "at least two simultaneously live non-zero blocks and at least one of: second chunk, reclaiming deallocate, in-place grow/shrink, rewind after failed initialiser, reset",
        "C02" => "a grow/shrink or a rewind happened while another block was live, in a history of at least 6 operations",
        "C03" => ">=2 chunks acquired and (a reset that freed a chunk or a drop that freed >=2), or a refused global-allocator request, or a thread hand-over",
        "C04" => "a request whose alignment differs from MIN_ALIGN made while the bump pointer residue mod 64 is non-zero, or a zero-sized request on a chunk-less arena",
        "C06" => "a reset with >=2 chunks or with a partially used chunk, followed by a successful refill",
        "C07" => "a limit was in force while a new chunk was requested (granted or refused)",
        "C08" => ">=2 chunks and a reset, or a failed allocation",
        "C10" => ">=2 chunks and (a failed initialiser/slice fill or a reset followed by a refill)",
        "C11" => "the failing slot forced a new chunk, or the initialiser kept a block",
        "C12" => "a grow/shrink with differing alignments, or one that had to move, or one that failed",
        "C18" => "the history acquired at least 4 chunks",
        _ => "any operation",
    };
    format!("cases are byte strings (8-byte header + 4 bytes per operation) generated by proptest and decoded into a single-arena history run against the real Bump with an instrumented global allocator; non-trivial = {nt}; distinct = distinct case bytes (FNV-64)")
}

pub struct ArenaEngine {
    pub prop: &'static str,
    pub profile: Profile,
    pub known: Vec<String>,
}

impl ArenaEngine {
    pub fn new(prop: &'static str) -> Self {
        ArenaEngine { prop, profile: profile_for(prop), known: known_sigs_for(prop) }
    }
}

impl Engine for ArenaEngine {
    fn prop(&self) -> &'static str {
        self.prop
    }
    fn strategy(&self, _tier: Tier) -> BoxedStrategy<Vec<u8>> {
        arena_strategy(&self.profile)
    }
    fn run(&self, bytes: &[u8]) -> CaseOut {
        let r = run_arena_case(bytes, self.profile.uniform && !mixed_mode(bytes), false);
        let mut out = CaseOut { hash: fnv(bytes), stats: r.stats.to_vec(), ..Default::default() };
        out.nontrivial = nontrivial(self.prop, &r.stats);
        if self.prop == "C07" && r.stats[St::LimitSetOps as usize] > 0 {
            // metamorphic part: "an arena with no limit behaves as if the feature did not exist"
            let a = run_arena_case_opts(bytes, SimOpts { record_trace: true, limit_mode: 1, ..Default::default() });
            let b = run_arena_case_opts(bytes, SimOpts { record_trace: true, limit_mode: 2, ..Default::default() });
            if a.trace.len() != b.trace.len() {
                out.viol.push(format!("the history without any limit call runs {} steps, the same history with every limit set and immediately removed runs {}", a.trace.len(), b.trace.len()));
            } else if let Some(i) = (0..a.trace.len()).find(|&i| a.trace[i] != b.trace[i]) {
                let (x, y) = (&a.trace[i], &b.trace[i]);
                out.viol.push(format!(
                    "step {i}: setting a limit and removing it again changed the arena's behaviour: outcome {} vs {}, placement ({}, {}) vs ({}, {}), chunk_capacity {} vs {}, allocated_bytes {} vs {}, chunks {} vs {}, allocator traffic {:?} vs {:?}",
                    x.outcome, y.outcome, x.chunk, x.off, y.chunk, y.off, x.cap, y.cap, x.ab, y.ab, x.nchunks, y.nchunks, x.ev, y.ev
                ));
            }
        }
        for v in r.viol {
            if v.prop == self.prop {
                out.viol.push(format!("op {}: {}", v.op, v.msg));
            } else {
                out.other.push(v.prop.to_string());
            }
        }
        out
    }
    fn describe(&self, bytes: &[u8]) -> Value {
        describe_case(bytes, self.profile.uniform && !mixed_mode(bytes))
    }
    fn stat_names(&self) -> Vec<&'static str> {
        ST_NAMES.to_vec()
    }
    fn cases(&self, tier: Tier) -> u32 {
        match tier {
            Tier::Quick => 2500,
            Tier::Thorough => 40000,
        }
    }
    fn rule(&self) -> String {
        rule_text(self.prop)
    }
    fn fuzz(&self) -> Option<FuzzSpec> {
        Some(FuzzSpec { target: "fz_arena", max_len: 8 + 4 * 80, target_prefix: vec![], engine_prefix: vec![] })
    }
    fn sweep(&self, tier: Tier, idx: u32, nworkers: u32) -> Option<SweepOut> {
        if self.prop == "C03" {
            return Some(ctor_leak_sweep(idx));
        }
        if self.prop != "C01" && self.prop != "C04" {
            return None;
        }
        Some(placement_sweep(self.prop, tier, idx, nworkers))
    }
    fn replay_sweep(&self, item: &Value) -> Vec<String> {
        if let Some(v) = item["sentinel_variant"].as_str() {
            return match run_sentinel_variant(v) {
                Ok((_, bad, _)) => bad,
                Err(e) => vec![format!("ENGINE: {e}")],
            };
        }
        if let Some(it) = item["chain_item"].as_str() {
            return chain_table().into_iter().filter(|(k, _, _)| k == it).filter_map(|(_, _, m)| m).collect();
        }
        if let Some(it) = item["ctor_leak_item"].as_str() {
            return ctor_leak_table().into_iter().filter(|(k, _, _)| k == it).filter_map(|(_, _, m)| m).collect();
        }
        if let Some(n) = item["ctor_n"].as_u64() {
            return ctor_table().into_iter().filter(|(k, _, _)| *k as u64 == n).filter_map(|(_, _, m)| m).collect();
        }
        let bytes = unhex(item["bytes_hex"].as_str().unwrap_or(""));
        println!("{}", serde_json::to_string_pretty(&describe_case(&bytes, false)).unwrap());
        run_arena_case(&bytes, false, false).viol.into_iter().filter(|v| v.prop == self.prop).map(|v| format!("op {}: {}", v.op, v.msg)).collect()
    }
    fn assumptions(&self) -> Vec<String> {
        vec![
            "the harness process's global allocator (the ledger) sees every request bumpalo makes; requests are attributed to an arena by a thread-local mode flag set around every call into bumpalo".into(),
            "histories are bounded (<= 80 operations, single requests <= ~1 MiB unless they are meant to be refused)".into(),
            "release-like profile (opt-level 1, debug assertions off, overflow checks off)".into(),
        ]
    }
}


// ---------------------------------------------------------------------------------------------
// systematic placement sweep (C01, C04): every bump-pointer residue x size x alignment x MIN_ALIGN

fn size_byte_for(size: usize) -> Option<u8> {
    if size < 128 {
        return Some(size as u8);
    }
    (192u8..224).find(|b| map_size(*b, 0) == size)
}

pub fn sweep_case(m_idx: u8, cap: usize, placement: u8, pad: usize, size: usize, align_log: u8) -> Option<Vec<u8>> {
    let capb = size_byte_for(cap)?;
    let padb = size_byte_for(pad)?;
    let szb = size_byte_for(size)?;
    let ctor = if cap == 0 { 0 } else { 1 };
    let mut v = vec![m_idx, ctor, capb, 0, placement, 0, 0, 0];
    // pad with alloc_layout(pad, 1); then the request twice (second one fallible), then a zero-sized one
    v.extend_from_slice(&[0, 0, padb, 0]);
    v.extend_from_slice(&[0, align_log << 1, szb, 0]);
    v.extend_from_slice(&[0, (align_log << 1) | 1, szb, 0]);
    v.extend_from_slice(&[0, align_log << 1, 0, 0]);
    Some(v)
}

/// constructor table: (N, description, violation)
pub fn ctor_table() -> Vec<(usize, String, Option<String>)> {
    use bumpalo::Bump;
    let mut out = vec![];
    macro_rules! probe {
        ($n:expr, $valid:expr) => {{
            let forms: [(&str, Box<dyn Fn() + std::panic::UnwindSafe>); 5] = [
                ("with_min_align()", Box::new(|| drop(Bump::<{ $n }>::with_min_align()))),
                ("default()", Box::new(|| drop(<Bump<{ $n }> as Default>::default()))),
                ("with_min_align_and_capacity(0)", Box::new(|| drop(Bump::<{ $n }>::with_min_align_and_capacity(0)))),
                ("with_min_align_and_capacity(100)", Box::new(|| drop(Bump::<{ $n }>::with_min_align_and_capacity(100)))),
                ("try_with_min_align_and_capacity(1)", Box::new(|| drop(Bump::<{ $n }>::try_with_min_align_and_capacity(1)))),
            ];
            for (name, f) in forms {
                let panicked = std::panic::catch_unwind(f).is_err();
                let viol = if $valid && panicked {
                    Some(format!("Bump::<{}>::{name} panicked although {} is a supported minimum alignment", $n, $n))
                } else if !$valid && !panicked {
                    Some(format!("Bump::<{}>::{name} did not panic although {} is not a supported minimum alignment", $n as usize, $n as usize))
                } else {
                    None
                };
                out.push(($n as usize, format!("Bump::<{}>::{name}: {}", $n as usize, if panicked { "panics" } else { "constructs" }), viol));
            }
        }};
    }
    probe!(1, true);
    probe!(2, true);
    probe!(4, true);
    probe!(8, true);
    probe!(16, true);
    probe!(0, false);
    probe!(3, false);
    probe!(5, false);
    probe!(6, false);
    probe!(7, false);
    probe!(9, false);
    probe!(12, false);
    probe!(17, false);
    probe!(24, false);
    probe!(32, false);
    probe!(64, false);
    probe!(128, false);
    probe!(4096, false);
    probe!(usize::MAX, false);
    out
}

/// C03 constructor table: every constructor form x supported and unsupported MIN_ALIGN x capacity x allocator mood.
/// Whatever the constructor does (construct, return Err, panic), once the arena (if any) has been dropped the
/// global allocator must have got back every block the constructor obtained. Returns (item, description, violation).
pub fn ctor_leak_table() -> Vec<(String, String, Option<String>)> {
    use bumpalo::Bump;
    use crate::ledger::{self, enter_arena, Plan};
    let mut out = vec![];
    let caps: [usize; 6] = [0, 1, 100, 448, 5000, 70000];
    let plans: [(&str, Plan); 3] = [("allocator grants", Plan::None), ("allocator refuses everything", Plan::FailAll), ("allocator refuses the first request", Plan::FailKth(0))];
    macro_rules! probe {
        ($n:expr, $valid:expr) => {{
            // (an unsupported MIN_ALIGN panics with a formatted message, which the standard library allocates before the
            // panic hook can leave arena mode: no refusing plans there, or the harness itself would run out of memory)
            for &cap in caps.iter() {
                for (pname, plan) in plans.iter().take(if $valid { 3 } else { 1 }) {
                    let forms: [(&str, Box<dyn Fn() + std::panic::UnwindSafe>); 4] = [
                        ("with_min_align()", Box::new(|| drop(Bump::<{ $n }>::with_min_align()))),
                        ("default()", Box::new(|| drop(<Bump<{ $n }> as Default>::default()))),
                        ("with_min_align_and_capacity", Box::new(move || drop(Bump::<{ $n }>::with_min_align_and_capacity(cap)))),
                        ("try_with_min_align_and_capacity", Box::new(move || drop(Bump::<{ $n }>::try_with_min_align_and_capacity(cap)))),
                    ];
                    for (fi, (name, f)) in forms.into_iter().enumerate() {
                        if fi < 2 && cap != 0 {
                            continue;
                        }
                        ledger::begin_case(0xC03);
                        ledger::set_plan(1, *plan);
                        let panicked = {
                            let _g = enter_arena(1);
                            std::panic::catch_unwind(f).is_err()
                        };
                        let mut blocks = vec![];
                        ledger::blocks(1, &mut blocks);
                        let total = blocks.len();
                        let live: Vec<usize> = blocks.iter().filter(|b| b.live).map(|b| b.size).collect();
                        let item = format!("Bump::<{}>::{name}({}) [{pname}]", $n as usize, if fi < 2 { String::new() } else { cap.to_string() });
                        let viol = if !live.is_empty() {
                            Some(format!("{item}: the constructor {} and whatever it built was dropped, yet {} block(s) obtained from the global allocator ({:?} bytes) were never given back", if panicked { "panicked" } else { "returned" }, live.len(), live))
                        } else {
                            None
                        };
                        out.push((item.clone(), format!("{item}: {}, {total} block(s) obtained, {} still held", if panicked { "panics" } else { "returns" }, live.len()), viol));
                        ledger::end_case();
                    }
                }
            }
        }};
    }
    probe!(1, true);
    probe!(2, true);
    probe!(4, true);
    probe!(8, true);
    probe!(16, true);
    probe!(0, false);
    probe!(3, false);
    probe!(24, false);
    probe!(32, false);
    probe!(64, false);
    probe!(4096, false);
    out
}

/// C03 long chunk chains: an allocator that refuses every request of 600 bytes or more (or a limit raised step by step)
/// keeps all chunks at the minimum size, so an arena can hold far more chunks than doubling growth would ever produce.
/// However many there are, drop gives every one back exactly once and reset all but one. Returns (item, description, violation).
pub fn chain_table() -> Vec<(String, String, Option<String>)> {
    use bumpalo::Bump;
    use crate::ledger::{self, enter_arena, EvKind, Plan};
    let mut out = vec![];
    fn run<const M: usize>(n: usize, by_limit: bool, reset_first: bool) -> (String, String, Option<String>) {
        let item = format!("chain M={M} n={n} by_limit={by_limit} reset_first={reset_first}");
        ledger::begin_case(0xC03C);
        if !by_limit {
            ledger::set_plan(1, Plan::FailAtLeast(600));
        }
        let mut b = {
            let _g = enter_arena(1);
            Bump::<M>::with_min_align()
        };
        let l = std::alloc::Layout::from_size_align(400, 1).unwrap();
        for _ in 0..n {
            let _g = enter_arena(1);
            if by_limit {
                b.set_allocation_limit(Some(b.allocated_bytes() + 500));
            }
            let _ = b.try_alloc_layout(l);
        }
        let count = |live_only: bool| {
            let mut blocks = vec![];
            ledger::blocks(1, &mut blocks);
            blocks.iter().filter(|x| !live_only || x.live).count()
        };
        let obtained = count(false);
        let mut viol = None;
        if reset_first {
            {
                let _g = enter_arena(1);
                b.reset();
            }
            let held = count(true);
            if held > 1 {
                viol = Some(format!("{item}: the arena had obtained {obtained} chunks; after reset() it (or nobody) still holds {held} of them instead of at most one"));
            }
        }
        {
            let _g = enter_arena(1);
            drop(b);
        }
        let held = count(true);
        if held != 0 && viol.is_none() {
            viol = Some(format!("{item}: the arena had obtained {obtained} chunks; after it was dropped {held} of them were never given back"));
        }
        let mut evs = vec![];
        ledger::take_events(&mut evs);
        if let Some(e) = evs.iter().find(|e| matches!(e.kind, EvKind::DoubleFree | EvKind::LayoutMismatch | EvKind::InteriorFree | EvKind::SentinelFree)) {
            if viol.is_none() {
                viol = Some(format!("{item}: {:?} while giving the chunks back", e.kind));
            }
        }
        ledger::end_case();
        (item.clone(), format!("{item}: {obtained} chunks obtained, {held} held at the end"), viol)
    }
    for &n in [3usize, 63, 64, 65, 66, 100, 129, 300, 1100].iter() {
        for &by_limit in [false, true].iter() {
            for &reset_first in [false, true].iter() {
                out.push(run::<1>(n, by_limit, reset_first));
                out.push(run::<16>(n, by_limit, reset_first));
            }
        }
    }
    out
}

pub fn ctor_leak_sweep(idx: u32) -> SweepOut {
    install_quiet_panic_hook();
    let mut out = SweepOut { exhaustive: true, ..Default::default() };
    if idx != 0 {
        return out;
    }
    let table = ctor_leak_table();
    for (item, _desc, viol) in table.iter() {
        out.evaluations += 1;
        out.nontrivial += 1;
        if let Some(m) = viol {
            if out.viol.len() < 3 {
                out.viol.push((m.clone(), json!({"ctor_leak_item": item})));
            }
        }
    }
    let chains = chain_table();
    for (item, _desc, viol) in chains.iter() {
        out.evaluations += 1;
        out.nontrivial += 1;
        if let Some(m) = viol {
            if out.viol.len() < 3 {
                out.viol.push((m.clone(), json!({"chain_item": item})));
            }
        }
    }
    out.extra.insert("long_chunk_chain_entries".to_string(), json!(chains.len()));
    out.extra.insert("long_chunk_chain_sample".to_string(), json!(chains.iter().filter(|t| t.0.contains("n=300") || t.0.contains("n=65 ")).take(6).map(|t| t.1.clone()).collect::<Vec<_>>()));
    out.extra.insert("constructor_leak_table_entries".to_string(), json!(table.len()));
    out.extra.insert("constructor_leak_table_sample".to_string(), json!(table.iter().filter(|t| t.0.contains("<32>") || t.0.contains("<8>")).take(8).map(|t| t.1.clone()).collect::<Vec<_>>()));
    out
}

pub fn placement_sweep(prop: &'static str, tier: Tier, idx: u32, nworkers: u32) -> SweepOut {
    install_quiet_panic_hook();
    let mut out = SweepOut { exhaustive: true, ..Default::default() };
    let pads: Vec<usize> = if tier == Tier::Thorough { (0..=64).collect() } else { vec![0, 1, 2, 3, 4, 5, 7, 8, 9, 15, 16, 17, 24, 31, 32, 33, 48, 63, 64] };
    let sizes: Vec<usize> = if tier == Tier::Thorough { (0..=40).chain([63, 64, 65, 447, 448, 449, 4095, 4096, 4097]).collect() } else { vec![0, 1, 2, 3, 4, 7, 8, 9, 15, 16, 17, 24, 31, 32, 33, 40, 63, 64, 65, 447, 448, 449, 4096] };
    let caps: [usize; 5] = [0, 1, 100, 448, 449];
    let mut k = 0u32;
    let mut nt = 0u64;
    for m_idx in 0..5u8 {
        for &cap in caps.iter() {
            for placement in 0..3u8 {
                for &pad in pads.iter() {
                    k += 1;
                    if k % nworkers != idx {
                        continue;
                    }
                    for align_log in 0..=12u8 {
                        for &size in sizes.iter() {
                            let Some(bytes) = sweep_case(m_idx, cap, placement, pad, size, align_log) else {
                                continue;
                            };
                            if size == sizes[0] {
                                sweep_note(&json!({"bytes_hex": hex(&bytes)}));
                            }
                            let r = run_arena_case(&bytes, false, false);
                            out.evaluations += 1;
                            let m = [1usize, 2, 4, 8, 16][m_idx as usize];
                            if (1usize << align_log) != m && pad % 64 != 0 {
                                nt += 1;
                            }
                            for v in r.viol.iter().filter(|v| v.prop == prop) {
                                if out.viol.len() < 3 {
                                    out.viol.push((format!("op {}: {}", v.op, v.msg), json!({"bytes_hex": hex(&bytes)})));
                                }
                            }
                        }
                    }
                }
            }
        }
    }
    out.nontrivial = nt;
    if prop == "C04" && idx == 0 {
        let table = ctor_table();
        let mut extra = BTreeMap::new();
        for (n, desc, viol) in table.iter() {
            out.evaluations += 1;
            out.nontrivial += 1;
            if let Some(m) = viol {
                out.viol.push((m.clone(), json!({"ctor_n": n})));
            }
            let _ = desc;
        }
        extra.insert("constructor_table_entries".to_string(), json!(table.len()));
        extra.insert("constructor_table_sample".to_string(), json!(table.iter().filter(|t| t.0 == 3 || t.0 == 16).map(|t| t.1.clone()).collect::<Vec<_>>()));
        out.extra = extra;
    }
    if prop == "C04" && idx == 0 {
        sentinel_probe(&mut out);
    }
    if idx == 0 {
        out.samples.push(json!({"sweep_item": "fresh Bump<M>(capacity), alloc_layout(pad,1), alloc_layout(size,align), try_alloc_layout(size,align), alloc_layout(0,align)", "example": describe_case(&sweep_case(3, 100, 1, 17, 24, 5).unwrap(), false)}));
    }
    out
}


/// C04 link-layout probe (DESIGN §9.5): zero-sized requests on chunk-less arenas return the address of
/// bumpalo's static empty sentinel, whose placement is fixed per binary. /verif/sentinel is linked in
/// four variants with 0/8/16/24 bytes of data in front of bumpalo's statics, so that a sentinel that is
/// only 8-byte aligned lands on an address = 8 (mod 16) in two of them.
pub fn run_sentinel_variant(v: &str) -> Result<(u64, Vec<String>, Vec<String>), String> {
    let exe = format!("{}/sentinel/target_{v}/release/vsentinel", verif_root());
    let out = std::process::Command::new(&exe).output().map_err(|e| format!("cannot run {exe}: {e}"))?;
    let text = String::from_utf8_lossy(&out.stdout).to_string();
    if !text.contains("SENTINEL-SUMMARY") {
        return Err(format!("{exe} did not finish (status {:?})", out.status.code()));
    }
    let lines: Vec<String> = text.lines().filter(|l| l.starts_with("SENTINEL ")).map(|l| l.to_string()).collect();
    let bad: Vec<String> = lines.iter().filter(|l| l.ends_with("MISALIGNED")).cloned().collect();
    Ok((lines.len() as u64, bad, lines))
}

pub fn sentinel_probe(out: &mut SweepOut) {
    let mut residues = vec![];
    let mut errors = vec![];
    for v in ["nopad", "pad8", "pad16", "pad24"] {
        match run_sentinel_variant(v) {
            Ok((n, bad, lines)) => {
                out.evaluations += n;
                out.nontrivial += n;
                if let Some(l) = lines.iter().find(|l| l.contains("min_align=16 align=1 alloc_layout")) {
                    residues.push(format!("{v}: {}", l.split("ptr=").nth(1).unwrap_or("")));
                }
                if let Some(b) = bad.first() {
                    out.viol.push((format!("link variant '{v}': zero-sized request on an arena that holds no memory: {b}"), json!({"sentinel_variant": v})));
                }
            }
            Err(e) => errors.push(e),
        }
    }
    out.extra.insert("sentinel_link_variants".into(), json!(residues));
    if !errors.is_empty() {
        out.extra.insert("engine_errors".into(), json!(errors.len()));
        out.extra.insert("engine_error_list".into(), json!(errors));
    }
}
