//! Engines that drive several arenas per case:
//!   C09 — fault enumeration with a fallible/infallible twin,
//!   C20 — solo vs interleaved (and concurrent) arenas.

use crate::arena_eng::*;
use crate::ledger::{self, Placement, Plan};
use crate::ops::*;
use crate::runner::*;
use crate::sim::*;
use crate::types::tok_reset;
use proptest::prelude::*;
use proptest::strategy::BoxedStrategy;
use serde_json::{json, Value};

// ---------------------------------------------------------------------------------------------
// C09

pub struct C09Engine {
    profile: Profile,
}

impl C09Engine {
    pub fn new() -> Self {
        //            lay typ tw  sl  tf  str alc dea gro shr rst lim pln prb hov rrf
        let weights = [24, 10, 8, 10, 4, 3, 8, 4, 6, 4, 3, 5, 0, 1, 0, 2];
        C09Engine { profile: Profile { weights, max_ops: 25, uniform: false, plan_prob: 0, big_sizes: true } }
    }
}

struct TwinRun {
    viol: Vec<String>,
    stats: [u32; NST],
    requests: u32,
    sizes: Vec<usize>,
}

fn cmp_items(i: usize, a: &TraceItem, b: &TraceItem) -> Option<String> {
    let oa = a.outcome;
    let ob = b.outcome;
    // operations without an infallible spelling (Allocator trait, try_fill) run identically on both sides
    let outcome_ok = oa == ob || (oa == OUT_ERR && ob == OUT_PANIC);
    if !outcome_ok {
        let name = |o: u8| match o {
            OUT_OK => "Ok",
            OUT_ERR => "Err",
            OUT_PANIC => "panic",
            OUT_SKIP => "skipped",
            _ => "init-error",
        };
        return Some(format!("step {i}: the fallible spelling ended with {} but the infallible spelling with {}", name(oa), name(ob)));
    }
    if (a.chunk, a.off, a.len, a.cap, a.ab, a.abm, a.nchunks) != (b.chunk, b.off, b.len, b.cap, b.ab, b.abm, b.nchunks) || a.ev != b.ev {
        return Some(format!(
            "step {i}: fallible and infallible spellings diverge: placement ({},{}) vs ({},{}), capacity {} vs {}, allocated_bytes {} vs {}, chunks {} vs {}, allocator traffic {:?} vs {:?}",
            a.chunk, a.off, b.chunk, b.off, a.cap, b.cap, a.ab, b.ab, a.nchunks, b.nchunks, a.ev, b.ev
        ));
    }
    None
}

fn twin_run(bytes: &[u8], plan: Plan) -> TwinRun {
    let (h, ops) = split_case(bytes);
    let mut hd = decode_header(&h);
    hd.plan = plan;
    let _ = k_meta();
    ledger::begin_case(fnv(bytes));
    ledger::set_sentinel(learn_sentinel());
    tok_reset();
    let mut a = make_sim(hd.m, 1, SimOpts { record_trace: true, force_fallible: Some(true), ..Default::default() });
    let mut b = make_sim(hd.m, 2, SimOpts { record_trace: true, force_fallible: Some(false), ..Default::default() });
    ledger::set_placement_key(1, 7);
    ledger::set_placement_key(2, 7);
    let mut viol = vec![];
    let ca = a.construct(&hd);
    let cb = b.construct(&hd);
    if ca != cb {
        viol.push(format!("constructor: fallible spelling {} but infallible spelling {}", if ca { "succeeded" } else { "failed" }, if cb { "succeeded" } else { "failed" }));
    }
    if ca && cb {
        for op in ops {
            // set_plan operations are not part of C09 histories (the plan is enumerated from outside)
            if op.code % NOPS == 12 || op.code % NOPS == 14 {
                continue;
            }
            if !a.alive() || !b.alive() {
                break;
            }
            a.step(op);
            b.step(op);
        }
    }
    a.finish();
    b.finish();
    let requests = ledger::req_count(1);
    let mut blocks = vec![];
    ledger::blocks(1, &mut blocks);
    let mut sizes: Vec<usize> = blocks.iter().map(|b| b.size).collect();
    sizes.sort();
    sizes.dedup();
    ledger::end_case();
    for v in a.viol().iter() {
        if v.prop == "C09" {
            viol.push(format!("[fallible] op {}: {}", v.op, v.msg));
        }
    }
    for v in b.viol().iter() {
        if v.prop == "C09" {
            viol.push(format!("[infallible] op {}: {}", v.op, v.msg));
        }
    }
    let (ta, tb) = (a.trace(), b.trace());
    if ta.len() != tb.len() {
        viol.push(format!("the two spellings executed a different number of steps ({} vs {})", ta.len(), tb.len()));
    } else {
        for i in 0..ta.len() {
            if let Some(m) = cmp_items(i, &ta[i], &tb[i]) {
                viol.push(m);
                break;
            }
        }
    }
    TwinRun { viol, stats: *a.stats(), requests, sizes }
}

pub fn c09_plans(bytes: &[u8]) -> (TwinRun0, Vec<Plan>) {
    let base = twin_run(bytes, Plan::None);
    let mut plans = vec![];
    for k in 0..base.requests.min(24) {
        plans.push(Plan::FailKth(k));
        plans.push(Plan::FailFrom(k));
    }
    for s in base.sizes.iter().take(12) {
        plans.push(Plan::FailAtLeast(*s));
    }
    plans.push(Plan::FailAll);
    (TwinRun0 { viol: base.viol, stats: base.stats }, plans)
}

pub struct TwinRun0 {
    pub viol: Vec<String>,
    pub stats: [u32; NST],
}

impl Engine for C09Engine {
    fn prop(&self) -> &'static str {
        "C09"
    }
    fn level(&self) -> &'static str {
        "fault_enumeration"
    }
    fn strategy(&self, _tier: Tier) -> BoxedStrategy<Vec<u8>> {
        arena_strategy(&self.profile)
    }
    fn run(&self, bytes: &[u8]) -> CaseOut {
        let mut out = CaseOut { hash: fnv(bytes), ..Default::default() };
        let (base, plans) = c09_plans(bytes);
        let mut stats = base.stats;
        for m in base.viol {
            out.viol.push(format!("plan None: {m}"));
        }
        let mut runs = 1u32;
        let mut err_runs = 0u32;
        for plan in plans {
            let r = twin_run(bytes, plan);
            runs += 1;
            if r.stats[St::ErrAfterFault as usize] > 0 || r.stats[St::LimitedFail as usize] > 0 {
                err_runs += 1;
            }
            for i in 0..NST {
                stats[i] = stats[i].saturating_add(r.stats[i]);
            }
            for m in r.viol {
                if out.viol.len() < 8 {
                    out.viol.push(format!("plan {:?}: {m}", plan));
                }
            }
        }
        out.nontrivial = err_runs > 0;
        out.stats = stats.to_vec();
        out.stats.push(runs);
        out.stats.push(err_runs);
        out
    }
    fn describe(&self, bytes: &[u8]) -> Value {
        let mut v = describe_case(bytes, false);
        v["note"] = json!("run once without faults, then once per enumerated fault plan (refuse k-th, refuse from k-th, refuse >= each observed size, refuse all); every run drives a try_ arena and a panicking twin in lock-step");
        v
    }
    fn stat_names(&self) -> Vec<&'static str> {
        let mut n = ST_NAMES.to_vec();
        n.push("fault_plan_runs");
        n.push("fault_plan_runs_with_err");
        n
    }
    fn cases(&self, tier: Tier) -> u32 {
        match tier {
            Tier::Quick => 400,
            Tier::Thorough => 8000,
        }
    }
    fn rule(&self) -> String {
        "cases are proptest-generated histories (<= 25 operations, all MIN_ALIGN, limits, sizes up to isize::MAX); each is run without faults to count its global-allocator requests n, then re-run for every k < n with 'refuse the k-th' and 'refuse from the k-th', for every distinct request size S with 'refuse >= S', and with 'refuse all'; every run drives the try_ spelling and the panicking spelling in lock-step on twin arenas with identical placement. non-trivial = at least one enumerated run in which a refusal or a limit actually made a call fail; distinct = distinct case bytes".into()
    }
    fn assumptions(&self) -> Vec<String> {
        vec![
            "non-termination is detected by a refusal budget (1000 refused requests inside one call), not by wall clock".into(),
            "the panic hook leaves arena mode, so the panic machinery's own allocations are never refused".into(),
            "requests above 1 GiB are always refused by the harness allocator (a legal allocator behaviour)".into(),
        ]
    }
}

// ---------------------------------------------------------------------------------------------
// C20

pub struct C20Engine;

struct MultiCase {
    k: usize,
    headers: Vec<[u8; 8]>,
    /// (arena index, op) in interleaved order; code 0xff = drop that arena now
    stream: Vec<(usize, Op)>,
    threaded: bool,
}

fn decode_multi(bytes: &[u8]) -> MultiCase {
    let b0 = bytes.first().cloned().unwrap_or(0);
    let k = 2 + (b0 % 3) as usize;
    let threaded = b0 & 0x80 != 0;
    let mut headers = vec![];
    for j in 0..k {
        let mut h = [0u8; 8];
        for i in 0..8 {
            h[i] = bytes.get(1 + j * 8 + i).cloned().unwrap_or(0);
        }
        // no fault plans here: isolation is about placement/accounting, C09 covers faults
        h[5] = 0;
        headers.push(h);
    }
    let rest = bytes.get(1 + k * 8..).unwrap_or(&[]);
    let stream = rest
        .chunks(5)
        .map(|c| {
            let g = |i: usize| c.get(i).cloned().unwrap_or(0);
            (g(0) as usize % k, Op { code: g(1), a: g(2), b: g(3), c: g(4) })
        })
        .collect();
    MultiCase { k, headers, stream, threaded }
}

fn is_drop(op: &Op) -> bool {
    op.code == 0xff
}
fn skip_op(op: &Op) -> bool {
    // plans and hand-over are exercised elsewhere
    let c = op.code % NOPS;
    !is_drop(op) && (c == 12 || c == 14)
}

struct SoloOut {
    trace: Vec<TraceItem>,
    viol: Vec<Violation>,
    stats: [u32; NST],
}

fn run_solo(case: &MultiCase, j: usize, seed: u64) -> SoloOut {
    let _ = k_meta();
    ledger::begin_case(seed);
    ledger::set_sentinel(learn_sentinel());
    tok_reset();
    let hd = decode_header(&case.headers[j]);
    let mut s = make_sim(hd.m, (j + 1) as u32, SimOpts { record_trace: true, ..Default::default() });
    if s.construct(&hd) {
        for (a, op) in case.stream.iter() {
            if *a != j || skip_op(op) {
                continue;
            }
            if is_drop(op) {
                break;
            }
            if !s.alive() {
                break;
            }
            s.step(*op);
        }
    }
    s.finish();
    ledger::end_case();
    SoloOut { trace: s.trace().to_vec(), viol: s.viol().to_vec(), stats: *s.stats() }
}

fn sentinel_bytes() -> Option<[u8; 48]> {
    let p = learn_sentinel();
    if p == 0 {
        return None;
    }
    let mut b = [0u8; 48];
    unsafe { std::ptr::copy_nonoverlapping(p as *const u8, b.as_mut_ptr(), 48) };
    Some(b)
}

fn trace_diff(j: usize, solo: &[TraceItem], inter: &[TraceItem], how: &str) -> Option<String> {
    if solo.len() != inter.len() {
        return Some(format!("arena {j}: {} steps when run alone, {} steps when {how}", solo.len(), inter.len()));
    }
    for i in 0..solo.len() {
        if solo[i] != inter[i] {
            let (a, b) = (&solo[i], &inter[i]);
            return Some(format!(
                "arena {j} step {i} differs when {how}: outcome {} vs {}, placement (chunk {}, offset {}) vs (chunk {}, offset {}), chunk_capacity {} vs {}, allocated_bytes {} vs {} (incl. metadata {} vs {}), chunks {} vs {}, allocator traffic {:?} vs {:?}",
                a.outcome, b.outcome, a.chunk, a.off, b.chunk, b.off, a.cap, b.cap, a.ab, b.ab, a.abm, b.abm, a.nchunks, b.nchunks, a.ev, b.ev
            ));
        }
    }
    None
}

impl Engine for C20Engine {
    fn prop(&self) -> &'static str {
        "C20"
    }
    fn strategy(&self, _tier: Tier) -> BoxedStrategy<Vec<u8>> {
        //            lay typ tw  sl  tf  str alc dea gro shr rst lim pln prb hov rrf
        let weights: [u32; 16] = [24, 10, 6, 8, 4, 3, 8, 6, 6, 4, 4, 3, 0, 2, 0, 3];
        let codes: Vec<u8> = weights.iter().enumerate().flat_map(|(i, w)| std::iter::repeat(i as u8).take(*w as usize)).chain(std::iter::repeat(0xffu8).take(3)).collect();
        let op = (0u8..4, proptest::sample::select(codes), any::<u8>(), prop_oneof![6 => 0u8..128, 2 => 128u8..224, 1 => 224u8..248], any::<u8>()).prop_map(|(a, c, x, y, z)| [a, c, x, y, z]);
        let header = (0u8..5, any::<u8>(), prop_oneof![3 => 0u8..128, 1 => 128u8..224], any::<u8>(), 0u8..3, any::<u8>(), any::<u8>()).prop_map(|(m, ctor, c1, c2, pl, p1, p2)| [m, ctor, c1, c2, pl, 0, p1, p2]);
        (any::<u8>(), proptest::collection::vec(header, 4), proptest::collection::vec(op, 0..=60))
            .prop_map(|(b0, hs, ops)| {
                let k = 2 + (b0 % 3) as usize;
                let mut v = vec![b0];
                for h in hs.iter().take(k) {
                    v.extend_from_slice(h);
                }
                for o in ops {
                    v.extend_from_slice(&o);
                }
                v
            })
            .boxed()
    }
    fn run(&self, bytes: &[u8]) -> CaseOut {
        let case = decode_multi(bytes);
        let seed = fnv(bytes);
        let mut out = CaseOut { hash: seed, ..Default::default() };
        // 1. each arena alone
        let solos: Vec<SoloOut> = (0..case.k).map(|j| run_solo(&case, j, seed)).collect();
        let mut stats = [0u32; NST];
        for s in solos.iter() {
            for i in 0..NST {
                stats[i] += s.stats[i];
            }
            for v in s.viol.iter() {
                if v.prop == "C20" {
                    out.viol.push(format!("solo: {}", v.msg));
                } else {
                    out.other.push(v.prop.to_string());
                }
            }
        }
        // 2. all arenas together
        ledger::begin_case(seed);
        ledger::set_sentinel(learn_sentinel());
        tok_reset();
        let sent0 = sentinel_bytes();
        let mut switches = 0u32;
        let mut chunkless_switch = 0u32;
        let mut thread_allocs = 0u32;
        if !case.threaded {
            let hds: Vec<Header> = case.headers.iter().map(decode_header).collect();
            let mut sims: Vec<Box<dyn SimDyn>> = (0..case.k).map(|j| make_sim(hds[j].m, (j + 1) as u32, SimOpts { record_trace: true, ..Default::default() })).collect();
            // constructors in index order (as in the solo runs each is the first thing that happens to it)
            let mut ok: Vec<bool> = vec![];
            for j in 0..case.k {
                ok.push(sims[j].construct(&hds[j]));
            }
            let mut done = vec![false; case.k];
            let mut last = usize::MAX;
            for (a, op) in case.stream.iter() {
                let j = *a;
                if skip_op(op) || done[j] || !ok[j] {
                    continue;
                }
                if last != j && last != usize::MAX {
                    switches += 1;
                    if sims[j].nchunks() == 0 || sims[last].nchunks() == 0 {
                        chunkless_switch += 1;
                    }
                }
                last = j;
                if is_drop(op) {
                    sims[j].finish();
                    done[j] = true;
                } else if sims[j].alive() {
                    sims[j].step(*op);
                }
                if let (Some(s0), Some(s1)) = (sent0, sentinel_bytes()) {
                    if s0 != s1 && out.viol.is_empty() {
                        out.viol.push(format!("the shared static empty sentinel changed during an operation of arena {j} ({:?})", describe_op(op)));
                    }
                }
            }
            for j in 0..case.k {
                sims[j].finish();
            }
            ledger::end_case();
            for j in 0..case.k {
                for v in sims[j].viol().iter() {
                    if v.prop == "C20" {
                        out.viol.push(format!("interleaved: {}", v.msg));
                    }
                }
                if let Some(m) = trace_diff(j, &solos[j].trace, sims[j].trace(), "interleaved with other arenas on one thread") {
                    out.viol.push(m);
                }
            }
        } else {
            // each arena on its own thread, started together
            let barrier = std::sync::Arc::new(std::sync::Barrier::new(case.k));
            let mut handles = vec![];
            for j in 0..case.k {
                let hd = decode_header(&case.headers[j]);
                let ops: Vec<Op> = case.stream.iter().filter(|(a, _)| *a == j).map(|(_, o)| *o).collect();
                let bar = barrier.clone();
                handles.push(std::thread::spawn(move || {
                    tok_reset();
                    let mut s = make_sim(hd.m, (j + 1) as u32, SimOpts { record_trace: true, threaded: true, ..Default::default() });
                    bar.wait();
                    if s.construct(&hd) {
                        for op in ops.iter() {
                            if skip_op(op) {
                                continue;
                            }
                            if is_drop(op) || !s.alive() {
                                break;
                            }
                            s.step(*op);
                        }
                    }
                    s.finish();
                    (s.trace().to_vec(), s.viol().to_vec(), s.stats()[St::AllocOk as usize])
                }));
            }
            let mut results = vec![];
            for h in handles {
                match h.join() {
                    Ok(r) => results.push(r),
                    Err(_) => {
                        out.viol.push("a thread driving its own arena panicked in the harness".into());
                    }
                }
            }
            ledger::end_case();
            if results.len() == case.k {
                let allocating = results.iter().filter(|r| r.2 > 0).count();
                if allocating >= 2 {
                    thread_allocs = 1;
                }
                for (j, (trace, viol, _)) in results.iter().enumerate() {
                    for v in viol.iter() {
                        if v.prop == "C20" {
                            out.viol.push(format!("concurrent: {}", v.msg));
                        }
                    }
                    if let Some(m) = trace_diff(j, &solos[j].trace, trace, "driven concurrently with other arenas on other threads") {
                        out.viol.push(m);
                    }
                }
                if let (Some(s0), Some(s1)) = (sent0, sentinel_bytes()) {
                    if s0 != s1 {
                        out.viol.push("the shared static empty sentinel changed while threads drove their arenas".into());
                    }
                }
            }
        }
        out.nontrivial = (switches >= 2 && chunkless_switch >= 1) || thread_allocs > 0;
        out.stats = stats.to_vec();
        out.stats.push(switches);
        out.stats.push(chunkless_switch);
        out.stats.push(case.threaded as u32);
        out.stats.push(thread_allocs);
        out
    }
    fn describe(&self, bytes: &[u8]) -> Value {
        let case = decode_multi(bytes);
        json!({
            "arenas": (0..case.k).map(|j| { let mut h = vec![0u8; 8]; h.copy_from_slice(&case.headers[j]); describe_case(&h, false) }).collect::<Vec<_>>(),
            "mode": if case.threaded { "one thread per arena, started behind a barrier" } else { "interleaved on one thread in stream order" },
            "stream": case.stream.iter().filter(|(_, o)| !skip_op(o)).map(|(a, o)| format!("arena {a}: {}", if is_drop(o) { "drop".to_string() } else { describe_op(o) })).collect::<Vec<_>>(),
        })
    }
    fn stat_names(&self) -> Vec<&'static str> {
        let mut n = ST_NAMES.to_vec();
        n.extend_from_slice(&["arena_switches", "switches_involving_chunkless_arena", "threaded_cases", "threaded_cases_with_2_allocating_threads"]);
        n
    }
    fn cases(&self, tier: Tier) -> u32 {
        match tier {
            Tier::Quick => 1500,
            Tier::Thorough => 25000,
        }
    }
    fn rule(&self) -> String {
        "cases are proptest-generated streams of (arena, operation) pairs over 2-4 arenas with independent constructors and MIN_ALIGN; every arena's sub-history is first run alone, then all are run together (interleaved in stream order on one thread, or one thread per arena behind a barrier) and each arena's normalised trace (outcome, chunk index, in-chunk offset, chunk_capacity, accounting, allocator traffic) must be identical; the 48 bytes of the shared static sentinel are compared before/after every step. non-trivial = an interleaving with >= 2 switches between arenas of which one involved a chunk-less arena, or a threaded case in which >= 2 threads allocated; distinct = distinct case bytes".into()
    }
    fn assumptions(&self) -> Vec<String> {
        vec![
            "placement by the harness allocator is a deterministic function of (case, arena, request index), so solo and joint runs are comparable bit for bit".into(),
            "data races themselves are decided by the ThreadSanitizer part (tsan/), not by this trace comparison".into(),
        ]
    }
}
