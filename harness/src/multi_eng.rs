//! Engines that drive several arenas per case:
//!   C09 — fault enumeration with a fallible/infallible twin,
//!   C20 — solo vs interleaved (and concurrent) arenas.

use crate::arena_eng::*;
use crate::ledger::{self, Placement, Plan};
use crate::ops::*;
use crate::runner::*;
use crate::sim::*;
use crate::types::tok_reset;
use proptest::prelude::*;
use proptest::strategy::BoxedStrategy;
use serde_json::{json, Value};

// ---------------------------------------------------------------------------------------------
// C09

pub struct C09Engine {
    profile: Profile,
}

impl C09Engine {
    pub fn new() -> Self {
        //            lay typ tw  sl  tf  str alc dea gro shr rst lim pln prb hov rrf
        let weights = [24, 10, 8, 10, 4, 3, 8, 4, 6, 4, 3, 5, 0, 1, 0, 2];
        C09Engine { profile: Profile { weights, max_ops: 25, uniform: false, plan_prob: 0, big_sizes: true } }
    }
}

struct TwinRun {
    viol: Vec<String>,
    stats: [u32; NST],
    requests: u32,
    sizes: Vec<usize>,
}

fn cmp_items(i: usize, a: &TraceItem, b: &TraceItem) -> Option<String> {
    let oa = a.outcome;
    let ob = b.outcome;
    // operations without an infallible spelling (Allocator trait, try_fill) run identically on both sides
    let outcome_ok = oa == ob || (oa == OUT_ERR && ob == OUT_PANIC);
    if !outcome_ok {
        let name = |o: u8| match o {
            OUT_OK => "Ok",
            OUT_ERR => "Err",
            OUT_PANIC => "panic",
            OUT_SKIP => "skipped",
            _ => "init-error",
        };
        return Some(format!("step {i}: the fallible spelling ended with {} but the infallible spelling with {}", name(oa), name(ob)));
    }
    if (a.chunk, a.off, a.len, a.cap, a.ab, a.abm, a.nchunks) != (b.chunk, b.off, b.len, b.cap, b.ab, b.abm, b.nchunks) || a.ev != b.ev {
        return Some(format!(
            "step {i}: fallible and infallible spellings diverge: placement ({},{}) vs ({},{}), capacity {} vs {}, allocated_bytes {} vs {}, chunks {} vs {}, allocator traffic {:?} vs {:?}",
            a.chunk, a.off, b.chunk, b.off, a.cap, b.cap, a.ab, b.ab, a.nchunks, b.nchunks, a.ev, b.ev
        ));
    }
    None
}

fn twin_run(bytes: &[u8], plan: Plan) -> TwinRun {
    let (h, ops) = split_case(bytes);
    let mut hd = decode_header(&h);
    hd.plan = plan;
    let _ = k_meta();
    ledger::begin_case(fnv(bytes));
    ledger::set_sentinel(learn_sentinel());
    tok_reset();
    let mut a = make_sim(hd.m, 1, SimOpts { record_trace: true, force_fallible: Some(true), ..Default::default() });
    let mut b = make_sim(hd.m, 2, SimOpts { record_trace: true, force_fallible: Some(false), ..Default::default() });
    ledger::set_placement_key(1, 7);
    ledger::set_placement_key(2, 7);
    let mut viol = vec![];
    let ca = a.construct(&hd);
    let cb = b.construct(&hd);
    if ca != cb {
        viol.push(format!("constructor: fallible spelling {} but infallible spelling {}", if ca { "succeeded" } else { "failed" }, if cb { "succeeded" } else { "failed" }));
    }
    if ca && cb {
        for op in ops {
            // set_plan operations are not part of C09 histories (the plan is enumerated from outside)
            if op.code % NOPS == 12 || op.code % NOPS == 14 {
                continue;
            }
            if !a.alive() || !b.alive() {
                break;
            }
            a.step(op);
            b.step(op);
        }
    }
    a.finish();
    b.finish();
    let requests = ledger::req_count(1);
    let mut blocks = vec![];
    ledger::blocks(1, &mut blocks);
    let mut sizes: Vec<usize> = blocks.iter().map(|b| b.size).collect();
    sizes.sort();
    sizes.dedup();
    ledger::end_case();
    for v in a.viol().iter() {
        if v.prop == "C09" {
            viol.push(format!("[fallible] op {}: {}", v.op, v.msg));
        }
    }
    for v in b.viol().iter() {
        if v.prop == "C09" {
            viol.push(format!("[infallible] op {}: {}", v.op, v.msg));
        }
    }
    let (ta, tb) = (a.trace(), b.trace());
    if ta.len() != tb.len() {
        viol.push(format!("the two spellings executed a different number of steps ({} vs {})", ta.len(), tb.len()));
    } else {
        for i in 0..ta.len() {
            if let Some(m) = cmp_items(i, &ta[i], &tb[i]) {
                viol.push(m);
                break;
            }
        }
    }
    TwinRun { viol, stats: *a.stats(), requests, sizes }
}

pub fn c09_plans(bytes: &[u8]) -> (TwinRun0, Vec<Plan>) {
    let base = twin_run(bytes, Plan::None);
    let mut plans = vec![];
    for k in 0..base.requests.min(24) {
        plans.push(Plan::FailKth(k));
        plans.push(Plan::FailFrom(k));
    }
    for s in base.sizes.iter().take(12) {
        plans.push(Plan::FailAtLeast(*s));
    }
    plans.push(Plan::FailAll);
    (TwinRun0 { viol: base.viol, stats: base.stats }, plans)
}

pub struct TwinRun0 {
    pub viol: Vec<String>,
    pub stats: [u32; NST],
}

impl Engine for C09Engine {
    fn prop(&self) -> &'static str {
        "C09"
    }
    fn hang_is_violation(&self) -> bool {
        // C09: "never ... fails to terminate"
        true
    }
    fn sweep(&self, tier: Tier, idx: u32, nworkers: u32) -> Option<SweepOut> {
        Some(crate::c09b::c09_boundary_sweep(tier, idx, nworkers))
    }
    fn replay_sweep(&self, item: &Value) -> Vec<String> {
        crate::c09b::replay_item(item)
    }
    fn fuzz(&self) -> Option<FuzzSpec> {
        Some(FuzzSpec { target: "fz_misc", max_len: 109, target_prefix: vec![0], engine_prefix: vec![] })
    }
    fn level(&self) -> &'static str {
        "fault_enumeration"
    }
    fn strategy(&self, _tier: Tier) -> BoxedStrategy<Vec<u8>> {
        arena_strategy(&self.profile)
    }
    fn run(&self, bytes: &[u8]) -> CaseOut {
        let mut out = CaseOut { hash: fnv(bytes), ..Default::default() };
        let (base, plans) = c09_plans(bytes);
        let mut stats = base.stats;
        for m in base.viol {
            out.viol.push(format!("plan None: {m}"));
        }
        let mut runs = 1u32;
        let mut err_runs = 0u32;
        for plan in plans {
            let r = twin_run(bytes, plan);
            runs += 1;
            if r.stats[St::ErrAfterFault as usize] > 0 || r.stats[St::LimitedFail as usize] > 0 {
                err_runs += 1;
            }
            for i in 0..NST {
                stats[i] = stats[i].saturating_add(r.stats[i]);
            }
            for m in r.viol {
                if out.viol.len() < 8 {
                    out.viol.push(format!("plan {:?}: {m}", plan));
                }
            }
        }
        out.nontrivial = err_runs > 0;
        out.stats = stats.to_vec();
        out.stats.push(runs);
        out.stats.push(err_runs);
        out
    }
    fn describe(&self, bytes: &[u8]) -> Value {
        let mut v = describe_case(bytes, false);
        v["note"] = json!("run once without faults, then once per enumerated fault plan (refuse k-th, refuse from k-th, refuse >= each observed size, refuse all); every run drives a try_ arena and a panicking twin in lock-step");
        v
    }
    fn stat_names(&self) -> Vec<&'static str> {
        let mut n = ST_NAMES.to_vec();
        n.push("fault_plan_runs");
        n.push("fault_plan_runs_with_err");
        n
    }
    fn cases(&self, tier: Tier) -> u32 {
        match tier {
            Tier::Quick => 600,
            Tier::Thorough => 8000,
        }
    }
    fn rule(&self) -> String {
        "cases are proptest-generated histories (<= 25 operations, all MIN_ALIGN, limits, sizes up to isize::MAX); each is run without faults to count its global-allocator requests n, then re-run for every k < n with 'refuse the k-th' and 'refuse from the k-th', for every distinct request size S with 'refuse >= S', and with 'refuse all'; every run drives the try_ spelling and the panicking spelling in lock-step on twin arenas with identical placement. non-trivial = at least one enumerated run in which a refusal or a limit actually made a call fail; distinct = distinct case bytes".into()
    }
    fn assumptions(&self) -> Vec<String> {
        vec![
            "non-termination is detected by a refusal budget (1000 refused requests inside one call), not by wall clock".into(),
            "the panic hook leaves arena mode, so the panic machinery's own allocations are never refused".into(),
            "requests above 1 GiB are always refused by the harness allocator (a legal allocator behaviour)".into(),
        ]
    }
}

// ---------------------------------------------------------------------------------------------
// C20

pub struct C20Engine;

struct MultiCase {
    k: usize,
    headers: Vec<[u8; 8]>,
    /// (arena index, op) in interleaved order; code 0xff = drop that arena now
    stream: Vec<(usize, Op)>,
    threaded: bool,
}

fn decode_multi(bytes: &[u8]) -> MultiCase {
    let b0 = bytes.first().cloned().unwrap_or(0);
    let k = 2 + (b0 % 3) as usize;
    let threaded = b0 & 0x80 != 0;
    let mut headers = vec![];
    for j in 0..k {
        let mut h = [0u8; 8];
        for i in 0..8 {
            h[i] = bytes.get(1 + j * 8 + i).cloned().unwrap_or(0);
        }
        // h[5] may carry a fault plan: an arena whose requests the global allocator refuses is still "another arena being
        // used", and its refusals must not leak into its neighbours (the ledger attributes plans and refusals per arena)
        headers.push(h);
    }
    let rest = bytes.get(1 + k * 8..).unwrap_or(&[]);
    let stream = rest
        .chunks(5)
        .map(|c| {
            let g = |i: usize| c.get(i).cloned().unwrap_or(0);
            (g(0) as usize % k, Op { code: g(1), a: g(2), b: g(3), c: g(4) })
        })
        .collect();
    MultiCase { k, headers, stream, threaded }
}

fn is_drop(op: &Op) -> bool {
    op.code == 0xff
}
fn skip_op(op: &Op) -> bool {
    // hand-over is exercised by the threaded mode itself
    let c = op.code % NOPS;
    !is_drop(op) && c == 14
}

struct SoloOut {
    trace: Vec<TraceItem>,
    viol: Vec<Violation>,
    stats: [u32; NST],
}

fn run_solo(case: &MultiCase, j: usize, seed: u64) -> SoloOut {
    let _ = k_meta();
    ledger::begin_case(seed);
    ledger::set_sentinel(learn_sentinel());
    tok_reset();
    let hd = decode_header(&case.headers[j]);
    let mut s = make_sim(hd.m, (j + 1) as u32, SimOpts { record_trace: true, ..Default::default() });
    if s.construct(&hd) {
        for (a, op) in case.stream.iter() {
            if *a != j || skip_op(op) {
                continue;
            }
            if is_drop(op) {
                break;
            }
            if !s.alive() {
                break;
            }
            s.step(*op);
        }
    }
    s.finish();
    ledger::end_case();
    SoloOut { trace: s.trace().to_vec(), viol: s.viol().to_vec(), stats: *s.stats() }
}

fn sentinel_bytes() -> Option<[u8; 48]> {
    let p = learn_sentinel();
    if p == 0 {
        return None;
    }
    let mut b = [0u8; 48];
    unsafe { std::ptr::copy_nonoverlapping(p as *const u8, b.as_mut_ptr(), 48) };
    Some(b)
}

fn trace_diff(j: usize, solo: &[TraceItem], inter: &[TraceItem], how: &str) -> Option<String> {
    if solo.len() != inter.len() {
        return Some(format!("arena {j}: {} steps when run alone, {} steps when {how}", solo.len(), inter.len()));
    }
    for i in 0..solo.len() {
        if solo[i] != inter[i] {
            let (a, b) = (&solo[i], &inter[i]);
            return Some(format!(
                "arena {j} step {i} differs when {how}: outcome {} vs {}, placement (chunk {}, offset {}) vs (chunk {}, offset {}), chunk_capacity {} vs {}, allocated_bytes {} vs {} (incl. metadata {} vs {}), chunks {} vs {}, allocator traffic {:?} vs {:?}",
                a.outcome, b.outcome, a.chunk, a.off, b.chunk, b.off, a.cap, b.cap, a.ab, b.ab, a.abm, b.abm, a.nchunks, b.nchunks, a.ev, b.ev
            ));
        }
    }
    None
}

impl Engine for C20Engine {
    fn prop(&self) -> &'static str {
        "C20"
    }
    fn fuzz(&self) -> Option<FuzzSpec> {
        Some(FuzzSpec { target: "fz_misc", max_len: 400, target_prefix: vec![3], engine_prefix: vec![] })
    }
    fn strategy(&self, _tier: Tier) -> BoxedStrategy<Vec<u8>> {
        //            lay typ tw  sl  tf  str alc dea gro shr rst lim pln prb hov rrf
        let weights: [u32; 16] = [24, 10, 6, 8, 4, 3, 8, 6, 6, 4, 4, 3, 2, 2, 0, 3];
        let codes: Vec<u8> = weights.iter().enumerate().flat_map(|(i, w)| std::iter::repeat(i as u8).take(*w as usize)).chain(std::iter::repeat(0xffu8).take(3)).collect();
        let op = (0u8..4, proptest::sample::select(codes), any::<u8>(), prop_oneof![6 => 0u8..128, 2 => 128u8..224, 1 => 224u8..248], any::<u8>()).prop_map(|(a, c, x, y, z)| [a, c, x, y, z]);
        let header = (0u8..5, any::<u8>(), prop_oneof![3 => 0u8..128, 1 => 128u8..224], any::<u8>(), 0u8..3, any::<u8>(), any::<u8>(), 0u8..16)
            .prop_map(|(m, ctor, c1, c2, pl, p1, p2, plan)| [m, ctor, c1, c2, pl, if plan < 3 { 10 + (p1 % 6) } else { 0 }, p1, p2]);
        let cross = proptest::collection::vec((0u8..14, 0u8..4, 0u8..4, any::<u8>()), 1..50).prop_map(|ops| {
            let mut v = vec![0x40u8];
            for (c, i, j, x) in ops {
                v.extend_from_slice(&[c, i, j, x]);
            }
            v
        });
        let main = (any::<u8>(), proptest::collection::vec(header, 4), proptest::collection::vec(op, 0..=60))
            .prop_map(|(b0, hs, ops)| {
                let b0 = b0 & !0x40;
                let k = 2 + (b0 % 3) as usize;
                let mut v = vec![b0];
                for h in hs.iter().take(k) {
                    v.extend_from_slice(h);
                }
                for o in ops {
                    v.extend_from_slice(&o);
                }
                v
            });
        prop_oneof![5 => main, 1 => cross].boxed()
    }
    fn run(&self, bytes: &[u8]) -> CaseOut {
        if bytes.first().map_or(false, |b| b & 0x40 != 0) {
            let (viol, cross_ops) = run_cross_arena(bytes);
            let mut stats = vec![0u32; NST + 4];
            stats[St::Ops as usize] = cross_ops;
            return CaseOut { viol, nontrivial: cross_ops >= 2, hash: fnv(bytes), stats, ..Default::default() };
        }
        let case = decode_multi(bytes);
        let seed = fnv(bytes);
        let mut out = CaseOut { hash: seed, ..Default::default() };
        // 1. each arena alone
        let solos: Vec<SoloOut> = (0..case.k).map(|j| run_solo(&case, j, seed)).collect();
        let mut stats = [0u32; NST];
        for s in solos.iter() {
            for i in 0..NST {
                stats[i] += s.stats[i];
            }
            for v in s.viol.iter() {
                if v.prop == "C20" {
                    out.viol.push(format!("solo: {}", v.msg));
                } else {
                    out.other.push(v.prop.to_string());
                }
            }
        }
        // 2. all arenas together
        ledger::begin_case(seed);
        ledger::set_sentinel(learn_sentinel());
        tok_reset();
        let sent0 = sentinel_bytes();
        let mut switches = 0u32;
        let mut chunkless_switch = 0u32;
        let mut thread_allocs = 0u32;
        if !case.threaded {
            let hds: Vec<Header> = case.headers.iter().map(decode_header).collect();
            let mut sims: Vec<Box<dyn SimDyn>> = (0..case.k).map(|j| make_sim(hds[j].m, (j + 1) as u32, SimOpts { record_trace: true, ..Default::default() })).collect();
            // constructors in index order (as in the solo runs each is the first thing that happens to it)
            let mut ok: Vec<bool> = vec![];
            for j in 0..case.k {
                ok.push(sims[j].construct(&hds[j]));
            }
            let mut done = vec![false; case.k];
            let mut last = usize::MAX;
            for (a, op) in case.stream.iter() {
                let j = *a;
                if skip_op(op) || done[j] || !ok[j] {
                    continue;
                }
                if last != j && last != usize::MAX {
                    switches += 1;
                    if sims[j].nchunks() == 0 || sims[last].nchunks() == 0 {
                        chunkless_switch += 1;
                    }
                }
                last = j;
                if is_drop(op) {
                    sims[j].finish();
                    done[j] = true;
                } else if sims[j].alive() {
                    sims[j].step(*op);
                }
                if let (Some(s0), Some(s1)) = (sent0, sentinel_bytes()) {
                    if s0 != s1 && out.viol.is_empty() {
                        out.viol.push(format!("the shared static empty sentinel changed during an operation of arena {j} ({:?})", describe_op(op)));
                    }
                }
            }
            for j in 0..case.k {
                sims[j].finish();
            }
            ledger::end_case();
            for j in 0..case.k {
                for v in sims[j].viol().iter() {
                    if v.prop == "C20" {
                        out.viol.push(format!("interleaved: {}", v.msg));
                    }
                }
                if let Some(m) = trace_diff(j, &solos[j].trace, sims[j].trace(), "interleaved with other arenas on one thread") {
                    out.viol.push(m);
                }
            }
        } else {
            // each arena on its own thread, started together
            let barrier = std::sync::Arc::new(std::sync::Barrier::new(case.k));
            let mut handles = vec![];
            for j in 0..case.k {
                let hd = decode_header(&case.headers[j]);
                let ops: Vec<Op> = case.stream.iter().filter(|(a, _)| *a == j).map(|(_, o)| *o).collect();
                let bar = barrier.clone();
                handles.push(std::thread::spawn(move || {
                    tok_reset();
                    let mut s = make_sim(hd.m, (j + 1) as u32, SimOpts { record_trace: true, threaded: true, ..Default::default() });
                    bar.wait();
                    if s.construct(&hd) {
                        for op in ops.iter() {
                            if skip_op(op) {
                                continue;
                            }
                            if is_drop(op) || !s.alive() {
                                break;
                            }
                            s.step(*op);
                        }
                    }
                    s.finish();
                    (s.trace().to_vec(), s.viol().to_vec(), s.stats()[St::AllocOk as usize])
                }));
            }
            let mut results = vec![];
            for h in handles {
                match h.join() {
                    Ok(r) => results.push(r),
                    Err(_) => {
                        out.viol.push("a thread driving its own arena panicked in the harness".into());
                    }
                }
            }
            ledger::end_case();
            if results.len() == case.k {
                let allocating = results.iter().filter(|r| r.2 > 0).count();
                if allocating >= 2 {
                    thread_allocs = 1;
                }
                for (j, (trace, viol, _)) in results.iter().enumerate() {
                    for v in viol.iter() {
                        if v.prop == "C20" {
                            out.viol.push(format!("concurrent: {}", v.msg));
                        }
                    }
                    if let Some(m) = trace_diff(j, &solos[j].trace, trace, "driven concurrently with other arenas on other threads") {
                        out.viol.push(m);
                    }
                }
                if let (Some(s0), Some(s1)) = (sent0, sentinel_bytes()) {
                    if s0 != s1 {
                        out.viol.push("the shared static empty sentinel changed while threads drove their arenas".into());
                    }
                }
            }
        }
        out.nontrivial = (switches >= 2 && chunkless_switch >= 1) || thread_allocs > 0;
        out.stats = stats.to_vec();
        out.stats.push(switches);
        out.stats.push(chunkless_switch);
        out.stats.push(case.threaded as u32);
        out.stats.push(thread_allocs);
        out
    }
    fn describe(&self, bytes: &[u8]) -> Value {
        if bytes.first().map_or(false, |b| b & 0x40 != 0) {
            return json!({"family": "collections of two arenas operated on together (vectors 0,1 live in arena A, vectors 2,3 in arena B)",
                "ops": bytes.get(1..).unwrap_or(&[]).chunks(4).map(|c| format!("{}(vec {}, vec {}, {})", CROSS_OPS[(c[0] % 14) as usize], c.get(1).cloned().unwrap_or(0) % 4, c.get(2).cloned().unwrap_or(0) % 4, c.get(3).cloned().unwrap_or(0))).collect::<Vec<_>>()});
        }
        let case = decode_multi(bytes);
        json!({
            "arenas": (0..case.k).map(|j| { let mut h = vec![0u8; 8]; h.copy_from_slice(&case.headers[j]); describe_case(&h, false) }).collect::<Vec<_>>(),
            "mode": if case.threaded { "one thread per arena, started behind a barrier" } else { "interleaved on one thread in stream order" },
            "stream": case.stream.iter().filter(|(_, o)| !skip_op(o)).map(|(a, o)| format!("arena {a}: {}", if is_drop(o) { "drop".to_string() } else { describe_op(o) })).collect::<Vec<_>>(),
        })
    }
    fn stat_names(&self) -> Vec<&'static str> {
        let mut n = ST_NAMES.to_vec();
        n.extend_from_slice(&["arena_switches", "switches_involving_chunkless_arena", "threaded_cases", "threaded_cases_with_2_allocating_threads"]);
        n
    }
    fn cases(&self, tier: Tier) -> u32 {
        match tier {
            Tier::Quick => 1500,
            Tier::Thorough => 25000,
        }
    }
    fn rule(&self) -> String {
        "cases are proptest-generated streams of (arena, operation) pairs over 2-4 arenas with independent constructors and MIN_ALIGN; every arena's sub-history is first run alone, then all are run together (interleaved in stream order on one thread, or one thread per arena behind a barrier) and each arena's normalised trace (outcome, chunk index, in-chunk offset, chunk_capacity, accounting, allocator traffic) must be identical; the 48 bytes of the shared static sentinel are compared before/after every step. A second family (one case in six) keeps two vectors in each of two arenas and runs push/extend/append/split_off/clone/drain/reserve/shrink on them, including operations that take vectors of both arenas (append): every vector keeps reporting its own arena from bump(), an arena whose vectors are not written by an operation keeps its allocated_bytes and chunk_capacity, contents follow a std model. non-trivial = an interleaving with >= 2 switches between arenas of which one involved a chunk-less arena, or a threaded case in which >= 2 threads allocated, or >= 2 cross-arena operations; distinct = distinct case bytes".into()
    }
    fn sweep(&self, tier: Tier, idx: u32, _nworkers: u32) -> Option<SweepOut> {
        if idx != 0 {
            return None;
        }
        Some(tsan_part(tier))
    }
    fn replay_sweep(&self, item: &Value) -> Vec<String> {
        // a TSan report depends on the schedule the OS happened to produce: re-run the saved cases a few times
        let cases: Vec<String> = item["cases_hex"].as_array().map(|a| a.iter().filter_map(|x| x.as_str().map(|s| s.to_string())).collect()).unwrap_or_default();
        let mut msgs = vec![];
        for _ in 0..5 {
            let (r, _, _) = run_tsan(&cases);
            for rep in r {
                if rep.class == TsanClass::Bumpalo {
                    msgs.push(rep.summary);
                }
            }
            if !msgs.is_empty() {
                break;
            }
        }
        msgs
    }
    fn assumptions(&self) -> Vec<String> {
        vec![
            "placement by the harness allocator is a deterministic function of (case, arena, request index), so solo and joint runs are comparable bit for bit".into(),
            "data races themselves are decided by the ThreadSanitizer part (tsan/), not by this trace comparison".into(),
        ]
    }
}


// ---------------------------------------------------------------------------------------------
// ThreadSanitizer part: generated thread programs run in /verif/tsan's instrumented binary

#[derive(Clone, Copy, Debug, PartialEq, Eq)]
pub enum TsanClass {
    /// the shared static empty sentinel (known finding D10 if listed)
    EmptyChunk,
    /// any other race with bumpalo frames or in a chunk
    Bumpalo,
    /// a race elsewhere: harness problem
    Other,
}

pub struct TsanReport {
    pub class: TsanClass,
    pub summary: String,
}

pub fn tsan_bin() -> String {
    format!("{}/tsan/target/x86_64-unknown-linux-gnu/release/vtsan", verif_root())
}

fn tsan_strategy() -> BoxedStrategy<Vec<u8>> {
    let code = proptest::sample::select(vec![0u8, 0, 1, 2, 3, 4, 4, 4, 4, 5, 6]);
    let op = (0u8..4, code, any::<u8>()).prop_map(|(t, c, a)| [t, c, a]);
    (any::<u8>(), 0u8..3, any::<u8>(), proptest::collection::vec(any::<u8>(), 4), proptest::collection::vec(op, 4..40))
        .prop_map(|(k, m, h, caps, ops)| {
            let kk = 2 + (k % 3) as usize;
            let mut v = vec![k, m, h];
            v.extend(caps.iter().take(kk));
            for o in ops {
                v.extend_from_slice(&o);
            }
            v
        })
        .boxed()
}

pub fn run_tsan(cases_hex: &[String]) -> (Vec<TsanReport>, usize, Option<String>) {
    use std::io::Write;
    let path = format!("{}/work/c20_tsan_cases_{}.txt", verif_root(), std::process::id());
    let _ = std::fs::create_dir_all(format!("{}/work", verif_root()));
    if let Ok(mut f) = std::fs::File::create(&path) {
        for c in cases_hex {
            let _ = writeln!(f, "{c}");
        }
    }
    // run with a watchdog: a hang is reported as inconclusive, never as a violation
    let errp = format!("{path}.stderr");
    let outp = format!("{path}.stdout");
    let child = std::process::Command::new(tsan_bin())
        .arg(&path)
        .env("TSAN_OPTIONS", "halt_on_error=0 exitcode=0 report_thread_leaks=0")
        .stdout(std::fs::File::create(&outp).map(std::process::Stdio::from).unwrap_or(std::process::Stdio::null()))
        .stderr(std::fs::File::create(&errp).map(std::process::Stdio::from).unwrap_or(std::process::Stdio::null()))
        .spawn();
    let mut child = match child {
        Ok(c) => c,
        Err(e) => return (vec![], 0, Some(format!("cannot run the TSan binary {}: {e}", tsan_bin()))),
    };
    let t0 = std::time::Instant::now();
    let limit = std::time::Duration::from_secs(60 + cases_hex.len() as u64 / 4);
    let status = loop {
        match child.try_wait() {
            Ok(Some(st)) => break Some(st),
            Ok(None) if t0.elapsed() > limit => {
                let _ = child.kill();
                let _ = child.wait();
                break None;
            }
            Ok(None) => {
                // heartbeat for the parent's stall detector
                if t0.elapsed().as_millis() % 5000 < 60 {
                    sweep_note(&json!({"tsan_part": "running", "elapsed_s": t0.elapsed().as_secs()}));
                }
                std::thread::sleep(std::time::Duration::from_millis(50))
            }
            Err(_) => break None,
        }
    };
    let stdout_text = std::fs::read_to_string(&outp).unwrap_or_default();
    let stderr_text = std::fs::read(&errp).map(|b| String::from_utf8_lossy(&b).to_string()).unwrap_or_default();
    let _ = std::fs::remove_file(&path);
    let _ = std::fs::remove_file(&outp);
    let _ = std::fs::remove_file(&errp);
    let Some(status) = status else {
        return (vec![], 0, Some(format!("the TSan binary did not finish {} thread programs within {} s and was stopped", cases_hex.len(), limit.as_secs())));
    };
    struct Out {
        status: std::process::ExitStatus,
        stdout: Vec<u8>,
        stderr: Vec<u8>,
    }
    let out = Out { status, stdout: stdout_text.into_bytes(), stderr: stderr_text.into_bytes() };
    let stdout = String::from_utf8_lossy(&out.stdout).to_string();
    let ran = stdout.lines().find_map(|l| l.strip_prefix("TSAN-CASES ")).and_then(|r| r.split_whitespace().next()).and_then(|n| n.parse::<usize>().ok());
    let Some(ran) = ran else {
        return (vec![], 0, Some(format!("the TSan binary did not finish its cases (exit {:?}); stderr tail: {}", out.status.code(), String::from_utf8_lossy(&out.stderr).chars().rev().take(300).collect::<String>().chars().rev().collect::<String>())));
    };
    let stderr = String::from_utf8_lossy(&out.stderr).to_string();
    let mut reports = vec![];
    for block in stderr.split("==================") {
        if !block.contains("WARNING: ThreadSanitizer") {
            continue;
        }
        let loc = block.lines().find(|l| l.trim_start().starts_with("Location is")).unwrap_or("").trim().to_string();
        let summary_line = block.lines().find(|l| l.starts_with("SUMMARY:")).unwrap_or("").to_string();
        let class = if loc.contains("bumpalo::EMPTY_CHUNK") {
            TsanClass::EmptyChunk
        } else if block.contains("bumpalo::") || loc.contains("bumpalo") {
            TsanClass::Bumpalo
        } else {
            TsanClass::Other
        };
        let first_frames: Vec<&str> = block.lines().filter(|l| l.trim_start().starts_with("#0") || l.trim_start().starts_with("#1")).take(4).map(|l| l.trim()).collect();
        reports.push(TsanReport { class, summary: format!("{loc} | {summary_line} | {}", first_frames.join(" / ")) });
    }
    (reports, ran, None)
}

pub fn tsan_part(tier: Tier) -> SweepOut {
    use proptest::strategy::ValueTree;
    use proptest::test_runner::{Config, RngSeed, TestRunner};
    let mut out = SweepOut::default();
    let n = if tier == Tier::Thorough { 4000 } else { 300 };
    let seed = seed_from_env();
    let mut runner = TestRunner::new(Config { rng_seed: RngSeed::Fixed(seed ^ 0x7534), failure_persistence: None, ..Config::default() });
    let strat = tsan_strategy();
    let mut cases = vec![];
    for _ in 0..n {
        if let Ok(t) = strat.new_tree(&mut runner) {
            cases.push(hex(&t.current()));
        }
    }
    let (reports, ran, err) = run_tsan(&cases);
    out.evaluations = ran as u64;
    out.nontrivial = ran as u64; // every case starts >= 2 threads that each drive their own arena
    let known = known_sigs_for("C20");
    let mut n_empty = 0u64;
    let mut n_other = 0u64;
    for r in reports.iter() {
        match r.class {
            TsanClass::EmptyChunk => {
                n_empty += 1;
                if known.iter().any(|k| k == "tsan-race-on-static-empty-chunk") {
                    if !out.known.iter().any(|k| k == "tsan-race-on-static-empty-chunk") {
                        out.known.push("tsan-race-on-static-empty-chunk".into());
                    }
                } else if out.viol.len() < 2 {
                    out.viol.push((format!("ThreadSanitizer: data race between threads that each use their own arena: {}", r.summary), json!({"cases_hex": cases.iter().take(60).collect::<Vec<_>>()})));
                }
            }
            TsanClass::Bumpalo => {
                if out.viol.len() < 2 {
                    out.viol.push((format!("ThreadSanitizer: data race between threads that each use their own arena: {}", r.summary), json!({"cases_hex": cases.iter().take(60).collect::<Vec<_>>()})));
                }
            }
            TsanClass::Other => n_other += 1,
        }
    }
    out.extra.insert("tsan_thread_programs".into(), json!(ran));
    out.extra.insert("tsan_reports_on_static_empty_chunk".into(), json!(n_empty));
    out.extra.insert("tsan_reports_total".into(), json!(reports.len()));
    let mut eng = vec![];
    if let Some(e) = err {
        eng.push(e);
    }
    if n_other > 0 {
        eng.push(format!("{n_other} TSan reports without any bumpalo frame (harness problem)"));
    }
    out.extra.insert("engine_errors".into(), json!(eng.len()));
    if !eng.is_empty() {
        out.extra.insert("engine_error_list".into(), json!(eng));
    }
    out.samples.push(json!({"tsan_case_hex": cases.first(), "meaning": "byte0: 2-4 threads, byte1: MIN_ALIGN 1/8/16, byte2 bit0: hand the arena over to the next thread at the end, then per-thread capacity bytes, then (thread, op, arg) triples: alloc_layout / alloc / reset / zero-sized request / drop+recreate / accounting"}));
    out
}


// ---------------------------------------------------------------------------------------------
// C20, collections family: vectors living in two different arenas operated on together

pub const CROSS_OPS: [&str; 14] = [
    "push", "extend_from_slice", "append", "split_off_into", "clone_into", "drain", "reserve", "shrink_to_fit", "truncate", "insert",
    "into_iter sent to and finished on another thread", "Drain sent to and dropped on another thread", "Box sent to and dropped on another thread",
    "String::extend with owned strings of the other arena, then growth",
];

pub fn run_cross_arena(bytes: &[u8]) -> (Vec<String>, u32) {
    use bumpalo::collections::Vec as BVec;
    use bumpalo::Bump;
    let _ = k_meta();
    ledger::begin_case(fnv(bytes));
    let mut viol: Vec<String> = vec![];
    let mut cross = 0u32;
    let (a, b) = {
        let _g = ledger::enter_arena(1);
        (Bump::new(), Bump::new())
    };
    {
        let arenas = [&a, &b];
        let owner = [0usize, 0, 1, 1];
        let mut s: Vec<BVec<u32>> = {
            let _g = ledger::enter_arena(1);
            vec![BVec::new_in(&a), BVec::new_in(&a), BVec::new_in(&b), BVec::new_in(&b)]
        };
        let mut t: Vec<Vec<u32>> = vec![vec![], vec![], vec![], vec![]];
        let obs = |x: &Bump| (x.allocated_bytes(), x.chunk_capacity());
        for ch in bytes.get(1..).unwrap_or(&[]).chunks(4) {
            let g = |i: usize| ch.get(i).cloned().unwrap_or(0);
            let (code, i, j, x) = (g(0) % 14, (g(1) % 4) as usize, (g(2) % 4) as usize, g(3));
            let before = [obs(&a), obs(&b)];
            // which arenas may legitimately change: the owners of the vectors that are written
            let mut may_change = [false, false];
            may_change[owner[i]] = true;
            if code == 13 {
                may_change = [true, true];
            } else if code >= 10 {
                // IntoIter, Drain and Box are Send (for Send elements) although the arena is not Sync: finishing them on
                // another thread is only sound if that never touches the arena, so no arena may change at all
                may_change = [false, false];
            }
            let len = t[i].len();
            let r = {
                let _g = ledger::enter_arena(1);
                std::panic::catch_unwind(std::panic::AssertUnwindSafe(|| match code {
                    0 => s[i].push(x as u32),
                    1 => {
                        let src: Vec<u32> = {
                            let _u = ledger::enter_user();
                            (0..(x % 40) as u32).collect()
                        };
                        s[i].extend_from_slice(&src)
                    }
                    2 => {
                        if i != j {
                            let (lo, hi) = s.split_at_mut(i.max(j));
                            if i < j {
                                lo[i].append(&mut hi[0])
                            } else {
                                hi[0].append(&mut lo[j])
                            }
                        }
                    }
                    3 => {
                        if i != j {
                            let tail = s[i].split_off((x as usize * (len + 1)) >> 8);
                            // the tail lives in i's arena; keep it in i's partner slot only if that slot has the same owner
                            if owner[i] == owner[j] {
                                s[j] = tail;
                            } else {
                                drop(tail);
                            }
                        }
                    }
                    4 => {
                        if i != j && owner[i] == owner[j] {
                            let c = s[i].clone();
                            s[j] = c;
                        }
                    }
                    5 => {
                        let lo = (x as usize * (len + 1)) >> 8;
                        s[i].drain(lo..);
                    }
                    6 => s[i].reserve(x as usize),
                    7 => s[i].shrink_to_fit(),
                    8 => s[i].truncate((x as usize * (len + 1)) >> 8),
                    9 => s[i].insert((x as usize * (len + 1)) >> 8, 7),
                    10 => {
                        let v = std::mem::replace(&mut s[i], BVec::new_in(arenas[owner[i]]));
                        let mut it = v.into_iter();
                        let here = (x % 3) as usize;
                        let mut sum = 0u64;
                        for _ in 0..here {
                            sum += it.next().unwrap_or(0) as u64;
                        }
                        let _u = ledger::enter_user();
                        let rest: u64 = std::thread::scope(|sc| {
                            sc.spawn(move || {
                                let mut r = 0u64;
                                if x & 4 != 0 {
                                    r += it.next_back().unwrap_or(0) as u64;
                                }
                                if x & 8 != 0 {
                                    for y in it {
                                        r += y as u64;
                                    }
                                } // else: dropped unfinished
                                r
                            })
                            .join()
                            .unwrap()
                        });
                        let _ = sum + rest;
                    }
                    11 => {
                        let lo = (x as usize * (len + 1)) >> 8;
                        let d = s[i].drain(lo..);
                        let _u = ledger::enter_user();
                        std::thread::scope(|sc| {
                            sc.spawn(move || {
                                let mut d = d;
                                if x & 1 != 0 {
                                    let _ = d.next();
                                }
                                drop(d);
                            })
                            .join()
                            .unwrap()
                        });
                    }
                    13 => {
                        // a string of one arena is extended with owned strings of the other one; afterwards it must still
                        // live in, and grow in, its own arena only
                        use bumpalo::collections::String as BString;
                        let home = arenas[owner[i]];
                        let other = arenas[1 - owner[i]];
                        let mut recv = if x & 1 == 0 { BString::new_in(home) } else { BString::from_str_in("seed-", home) };
                        let pieces = vec![BString::from_str_in("héllo ", other), BString::from_str_in("wörld", other)];
                        match x & 6 {
                            0 => recv.extend(pieces),
                            2 => {
                                for p in pieces {
                                    recv += p.as_str();
                                }
                            }
                            _ => recv.extend(pieces.iter().map(|p| p.as_str())),
                        }
                        let mid = obs(other);
                        recv.reserve(300 + x as usize);
                        for _ in 0..40 {
                            recv.push_str("0123456789");
                        }
                        if obs(other) != mid {
                            panic!("growing a string of one arena changed the other arena: (allocated_bytes, chunk_capacity) {:?} -> {:?}", mid, obs(other));
                        }
                        if !recv.ends_with("0123456789") || !recv.contains("wörld") {
                            panic!("cross-arena String::extend lost text");
                        }
                    }
                    _ => {
                        let bx = bumpalo::boxed::Box::new_in(x as u64, arenas[owner[i]]);
                        // creating the box is an allocation in its arena; only what the other thread does must be neutral
                        let mid = [obs(&a), obs(&b)];
                        let _u = ledger::enter_user();
                        std::thread::scope(|sc| {
                            sc.spawn(move || drop(bx)).join().unwrap();
                        });
                        if [obs(&a), obs(&b)] != mid {
                            panic!("dropping a Box on another thread changed an arena");
                        }
                    }
                }))
            };
            if r.is_err() {
                viol.push(format!("{} panicked", CROSS_OPS[code as usize]));
                break;
            }
            // model
            match code {
                0 => t[i].push(x as u32),
                1 => t[i].extend(0..(x % 40) as u32),
                2 => {
                    if i != j {
                        let moved = std::mem::take(&mut t[j]);
                        t[i].extend(moved);
                        if owner[i] != owner[j] {
                            cross += 1;
                        }
                    }
                }
                3 => {
                    if i != j {
                        let tail = t[i].split_off((x as usize * (len + 1)) >> 8);
                        if owner[i] == owner[j] {
                            t[j] = tail;
                        }
                    }
                }
                4 => {
                    if i != j && owner[i] == owner[j] {
                        t[j] = t[i].clone();
                    }
                }
                5 => {
                    t[i].truncate((x as usize * (len + 1)) >> 8);
                }
                6 | 7 => {}
                8 => t[i].truncate((x as usize * (len + 1)) >> 8),
                9 => t[i].insert((x as usize * (len + 1)) >> 8, 7),
                10 => t[i].clear(),
                11 => t[i].truncate((x as usize * (len + 1)) >> 8),
                13 => {}
                _ => may_change[owner[i]] = true,
            }
            let after = [obs(&a), obs(&b)];
            for z in 0..2 {
                if !may_change[z] && before[z] != after[z] {
                    viol.push(format!("{}(vec {i} of arena {}, vec {j} of arena {}): arena {} was not written to, yet its (allocated_bytes, chunk_capacity) went from {:?} to {:?}", CROSS_OPS[code as usize], owner[i], owner[j], z, before[z], after[z]));
                }
            }
            for k in 0..4 {
                if s[k].as_slice() != t[k].as_slice() {
                    viol.push(format!("after {}: vector {k} holds {:?}, expected {:?}", CROSS_OPS[code as usize], &s[k].as_slice()[..s[k].len().min(10)], &t[k][..t[k].len().min(10)]));
                }
                if !std::ptr::eq(s[k].bump(), arenas[owner[k]]) {
                    viol.push(format!("after {}: vector {k}, created in arena {}, now reports the other arena from bump()", CROSS_OPS[code as usize], owner[k]));
                }
            }
            if !viol.is_empty() {
                break;
            }
        }
        let _g = ledger::enter_arena(1);
        drop(s);
    }
    {
        let _g = ledger::enter_arena(1);
        drop(a);
        drop(b);
    }
    ledger::end_case();
    (viol, cross)
}
