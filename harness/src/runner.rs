//! Generic check runner: proptest-driven workers in separate processes, shrinking, replay files,
//! known-finding handling and evidence writing (DESIGN §2.3, §2.6).

use proptest::strategy::{BoxedStrategy, ValueTree};
use proptest::test_runner::{Config, RngSeed, TestCaseError, TestError, TestRunner};
use serde_json::{json, Value};
use std::cell::RefCell;
use std::collections::{BTreeMap, HashSet};
use std::io::{Read, Write};
use std::path::{Path, PathBuf};
use std::process::{Command, Stdio};
use std::time::{Duration, Instant};

/// root of the verification tree: /verif, or the snapshot a background run works in (VERIF_ROOT)
pub fn verif_root() -> String {
    std::env::var("VERIF_ROOT").ok().filter(|s| !s.is_empty()).unwrap_or_else(|| "/verif".to_string())
}

#[derive(Clone, Copy, Debug, PartialEq, Eq)]
pub enum Tier {
    Quick,
    Thorough,
}
impl Tier {
    pub fn name(self) -> &'static str {
        match self {
            Tier::Quick => "quick",
            Tier::Thorough => "thorough",
        }
    }
    pub fn parse(s: &str) -> Tier {
        if s == "thorough" {
            Tier::Thorough
        } else {
            Tier::Quick
        }
    }
}

#[derive(Clone, Debug, Default)]
pub struct CaseOut {
    /// violations of *this* property (unlisted ones)
    pub viol: Vec<String>,
    /// signatures of listed known findings that this case exhibited
    pub known: Vec<String>,
    pub nontrivial: bool,
    pub hash: u64,
    pub stats: Vec<u32>,
    /// violations of other properties seen on the way (informational only)
    pub other: Vec<String>,
}

pub trait Engine {
    fn prop(&self) -> &'static str;
    fn level(&self) -> &'static str {
        "exploration"
    }
    fn strategy(&self, tier: Tier) -> BoxedStrategy<Vec<u8>>;
    fn run(&self, bytes: &[u8]) -> CaseOut;
    fn describe(&self, bytes: &[u8]) -> Value;
    fn stat_names(&self) -> Vec<&'static str>;
    /// cases per worker
    fn cases(&self, tier: Tier) -> u32;
    fn rule(&self) -> String;
    fn assumptions(&self) -> Vec<String> {
        vec![]
    }
    /// systematic (non-random) part, run by worker 0..n in slices; returns (evaluations, nontrivial, violations, samples, extra coverage keys)
    fn sweep(&self, _tier: Tier, _idx: u32, _nworkers: u32) -> Option<SweepOut> {
        None
    }
    /// replay of a sweep item
    fn replay_sweep(&self, _item: &Value) -> Vec<String> {
        vec![]
    }
    fn workers(&self, _tier: Tier) -> u32 {
        16
    }
    /// true if a worker killed by a signal is itself a violation of this property
    fn crash_is_violation(&self) -> bool {
        true
    }
    /// true if a case that does not terminate (stalls twice, on its own, far beyond any normal case time)
    /// is itself a violation of this property; otherwise a stall is inconclusive
    fn hang_is_violation(&self) -> bool {
        false
    }
    /// coverage-guided twin (thorough tier): libFuzzer target built with ASan + debug assertions
    fn fuzz(&self) -> Option<FuzzSpec> {
        None
    }
}

pub struct FuzzSpec {
    pub target: &'static str,
    pub max_len: usize,
    /// bytes the fuzz target expects in front of an engine case (fz_misc's engine selector)
    pub target_prefix: Vec<u8>,
    /// bytes to strip from an engine case before it is handed to the target (C18's family byte)
    pub engine_prefix: Vec<u8>,
}

pub fn fuzz_dir() -> String {
    format!("{}/harness/fuzz/target/x86_64-unknown-linux-gnu/release", verif_root())
}

/// run one saved input through the fuzz binary; Some(message) if it fails there
pub fn fuzz_replay(target: &str, prop: &str, input: &[u8]) -> Result<Option<String>, String> {
    let exe = format!("{}/{target}", fuzz_dir());
    if !Path::new(&exe).exists() {
        return Err(format!("fuzz binary {exe} is missing (run setup.sh or ./run {prop} thorough)"));
    }
    let tmp = format!("{}/work/fzreplay_{}_{}", verif_root(), std::process::id(), fnv(input));
    std::fs::write(&tmp, input).map_err(|e| e.to_string())?;
    let out = Command::new(&exe).arg(&tmp).env("VERIF_PROP", prop).env("ASAN_OPTIONS", "detect_leaks=0").stdout(Stdio::null()).stderr(Stdio::piped()).output();
    let _ = std::fs::remove_file(&tmp);
    let out = out.map_err(|e| e.to_string())?;
    if out.status.success() {
        return Ok(None);
    }
    let err = String::from_utf8_lossy(&out.stderr);
    let line = err.lines().find(|l| l.contains("FUZZ-VIOLATION") || l.contains("ERROR: AddressSanitizer") || l.contains("panicked at")).unwrap_or("fuzz target died").to_string();
    Ok(Some(line))
}

struct FuzzOutcome {
    execs: u64,
    features: u64,
    corpus: u64,
    crashes: Vec<(Vec<u8>, String)>,
    notes: Vec<String>,
    seeds: u64,
}

fn fuzz_campaign(eng: &dyn Engine, spec: &FuzzSpec, seed: u64, deadline: Instant) -> FuzzOutcome {
    let prop = eng.prop();
    let mut out = FuzzOutcome { execs: 0, features: 0, corpus: 0, crashes: vec![], notes: vec![], seeds: 0 };
    let exe = format!("{}/{}", fuzz_dir(), spec.target);
    if !Path::new(&exe).exists() {
        out.notes.push(format!("fuzz binary {exe} is missing"));
        return out;
    }
    let nproc = 8u32;
    let root = format!("{}/work/fz_{prop}", verif_root());
    let _ = std::fs::remove_dir_all(&root);
    // seed corpus: cases from the engine's own generator (empty corpus ramps up too slowly)
    {
        use proptest::strategy::Strategy;
        let mut runner = TestRunner::new(Config { rng_seed: RngSeed::Fixed(seed ^ 0xf22), failure_persistence: None, ..Config::default() });
        let strat = eng.strategy(Tier::Thorough);
        for i in 0..nproc {
            let dir = format!("{root}/c{i}");
            let _ = std::fs::create_dir_all(&dir);
            for j in 0..24 {
                if let Ok(t) = strat.new_tree(&mut runner) {
                    let case = t.current();
                    if !case.starts_with(&spec.engine_prefix) {
                        continue;
                    }
                    let mut bytes = spec.target_prefix.clone();
                    bytes.extend_from_slice(&case[spec.engine_prefix.len()..]);
                    if bytes.len() <= spec.max_len {
                        let _ = std::fs::write(format!("{dir}/seed{j}"), &bytes);
                        out.seeds += 1;
                    }
                }
            }
        }
    }
    let secs = deadline.saturating_duration_since(Instant::now()).as_secs().min(150).max(10);
    let mut children = vec![];
    for i in 0..nproc {
        let dir = format!("{root}/c{i}");
        let child = Command::new(&exe)
            .args([
                format!("-runs={}", 120_000),
                format!("-max_total_time={secs}"),
                format!("-seed={}", seed.wrapping_mul(31).wrapping_add(i as u64 + 1) % 4_000_000_000),
                "-len_control=0".to_string(),
                format!("-max_len={}", spec.max_len),
                "-print_final_stats=1".to_string(),
                format!("-artifact_prefix={root}/art{i}_"),
                dir,
            ])
            .env("VERIF_PROP", prop)
            .env("ASAN_OPTIONS", "detect_leaks=0")
            .stdout(Stdio::null())
            .stderr(Stdio::piped())
            .spawn();
        match child {
            Ok(c) => children.push((i, c)),
            Err(e) => out.notes.push(format!("cannot start fuzz process {i}: {e}")),
        }
    }
    for (i, mut c) in children {
        let mut se = c.stderr.take().unwrap();
        let h = std::thread::spawn(move || {
            let mut s = String::new();
            let _ = se.read_to_string(&mut s);
            s
        });
        let st = wait_with_timeout(&mut c, Instant::now() + Duration::from_secs(secs + 120));
        let err = h.join().unwrap_or_default();
        for l in err.lines() {
            if let Some(v) = l.strip_prefix("stat::number_of_executed_units:") {
                out.execs += v.trim().parse::<u64>().unwrap_or(0);
            }
        }
        if let Some(l) = err.lines().rev().find(|l| l.contains(" cov: ") && l.contains(" ft: ")) {
            let grab = |key: &str| l.split(key).nth(1).and_then(|r| r.split_whitespace().next()).and_then(|x| x.parse::<u64>().ok()).unwrap_or(0);
            out.features += grab(" ft: ");
            out.corpus += grab(" corp: ").max(l.split(" corp: ").nth(1).and_then(|r| r.split('/').next()).and_then(|x| x.trim().parse::<u64>().ok()).unwrap_or(0));
        }
        match st {
            None => out.notes.push(format!("fuzz process {i} had to be stopped")),
            Some(s) if s.success() => {}
            Some(_) => {
                // look for the artifact
                let mut found = false;
                if let Ok(rd) = std::fs::read_dir(&root) {
                    for e in rd.flatten() {
                        let name = e.file_name().to_string_lossy().to_string();
                        if name.starts_with(&format!("art{i}_")) {
                            if let Ok(bytes) = std::fs::read(e.path()) {
                                let line = err.lines().find(|l| l.contains("FUZZ-VIOLATION") || l.contains("ERROR: AddressSanitizer")).unwrap_or("fuzz target died").to_string();
                                out.crashes.push((bytes, line));
                                found = true;
                            }
                        }
                    }
                }
                if !found {
                    out.notes.push(format!("fuzz process {i} failed without an artifact: {}", err.lines().rev().take(3).collect::<Vec<_>>().join(" | ")));
                }
            }
        }
    }
    let _ = std::fs::remove_dir_all(&root);
    out
}


#[derive(Clone, Debug, Default)]
pub struct SweepOut {
    pub evaluations: u64,
    pub nontrivial: u64,
    pub viol: Vec<(String, Value)>,
    pub known: Vec<String>,
    pub samples: Vec<Value>,
    pub extra: BTreeMap<String, Value>,
    pub exhaustive: bool,
}

pub fn hex(b: &[u8]) -> String {
    b.iter().map(|x| format!("{:02x}", x)).collect()
}
pub fn unhex(s: &str) -> Vec<u8> {
    (0..s.len() / 2).map(|i| u8::from_str_radix(&s[2 * i..2 * i + 2], 16).unwrap_or(0)).collect()
}
pub fn fnv(data: &[u8]) -> u64 {
    let mut h: u64 = 0xcbf29ce484222325;
    for &b in data {
        h ^= b as u64;
        h = h.wrapping_mul(0x100000001b3);
    }
    h
}

pub fn install_quiet_panic_hook() {
    std::panic::set_hook(Box::new(|_info| {
        crate::ledger::on_panic();
        if std::env::var_os("VERIF_SHOW_PANICS").is_some() {
            eprintln!("panic: {}", _info);
        }
    }));
}

// ---------------------------------------------------------------------------------------------
// known findings

#[derive(Clone, Debug)]
pub struct Known {
    pub prop: String,
    pub sig: String,
    pub text: String,
}

pub fn load_known() -> Vec<Known> {
    let mut out = vec![];
    if let Ok(s) = std::fs::read_to_string(format!("{}/known_findings.txt", verif_root())) {
        for line in s.lines() {
            let line = line.trim();
            if let Some(rest) = line.strip_prefix("known:") {
                let rest = rest.trim();
                let mut prop = String::new();
                let mut sig = String::new();
                let mut text = vec![];
                for w in rest.split_whitespace() {
                    if let Some(p) = w.strip_prefix("property=") {
                        prop = p.to_string();
                    } else if let Some(p) = w.strip_prefix("sig=") {
                        sig = p.to_string();
                    } else {
                        text.push(w);
                    }
                }
                out.push(Known { prop, sig, text: text.join(" ") });
            }
        }
    }
    out
}

pub fn known_sigs_for(prop: &str) -> Vec<String> {
    load_known().into_iter().filter(|k| k.prop == prop).map(|k| k.sig).collect()
}

// ---------------------------------------------------------------------------------------------
// worker

/// path of the same binary built with the `dbg` profile (debug assertions, overflow and UB checks on)
pub fn dbg_twin(exe: &Path) -> Option<PathBuf> {
    let name = exe.file_name()?;
    let dir = exe.parent()?; // .../target/release
    if dir.file_name()?.to_str()? != "release" {
        return None;
    }
    let p = dir.parent()?.join("dbg").join(name);
    if p.exists() {
        Some(p)
    } else {
        None
    }
}
pub fn is_dbg_build() -> bool {
    cfg!(debug_assertions)
}

pub fn seed_from_env() -> u64 {
    std::env::var("VERIF_SEED").ok().and_then(|s| s.trim().parse::<u64>().ok()).unwrap_or(0)
}

fn work_dir() -> PathBuf {
    let p = PathBuf::from(format!("{}/work", verif_root()));
    let _ = std::fs::create_dir_all(&p);
    p
}

thread_local! {
    static SWEEP_CUR: RefCell<Option<(std::fs::File, PathBuf)>> = RefCell::new(None);
}

/// A systematic sweep notes the item it is about to execute, so that a worker killed by a signal
/// can be reproduced by the parent.
pub fn sweep_note(item: &Value) {
    SWEEP_CUR.with(|c| {
        if let Some((f, _)) = c.borrow_mut().as_mut() {
            use std::io::Seek;
            let text = item.to_string();
            let _ = f.seek(std::io::SeekFrom::Start(0));
            let _ = f.set_len(0);
            let _ = f.write_all(text.as_bytes());
        }
    });
}

pub fn worker_main(eng: &dyn Engine, tier: Tier, seed: u64, idx: u32, nworkers: u32) -> Value {
    install_quiet_panic_hook();
    let prop = eng.prop();
    let cases = eng.cases(tier);
    let cur_path = work_dir().join(format!("{prop}.{idx}.cur"));
    let t0 = Instant::now();
    let sweep_path = work_dir().join(format!("{prop}.{idx}.sweepcur"));
    SWEEP_CUR.with(|c| *c.borrow_mut() = std::fs::File::create(&sweep_path).ok().map(|f| (f, sweep_path.clone())));
    let sweep = eng.sweep(tier, idx, nworkers);
    SWEEP_CUR.with(|c| *c.borrow_mut() = None);
    let _ = std::fs::remove_file(&sweep_path);

    struct Acc {
        evals: u64,
        hashes: HashSet<u64>,
        stats: Vec<u64>,
        samples: Vec<Vec<u8>>,
        known: BTreeMap<String, u64>,
        other: BTreeMap<String, u64>,
        failed: bool,
        fail_msgs: Vec<String>,
        cur: Option<std::fs::File>,
    }
    let acc = RefCell::new(Acc {
        evals: 0,
        hashes: HashSet::new(),
        stats: vec![0; eng.stat_names().len()],
        samples: vec![],
        known: BTreeMap::new(),
        other: BTreeMap::new(),
        failed: false,
        fail_msgs: vec![],
        cur: std::fs::File::create(&cur_path).ok(),
    });
    let mut failure: Option<(Vec<u8>, String)> = None;
    if cases > 0 {
        let config = Config {
            cases,
            failure_persistence: None,
            rng_seed: RngSeed::Fixed(seed.wrapping_mul(0x9e3779b97f4a7c15) ^ ((idx as u64) << 32) ^ fnv(prop.as_bytes())),
            max_shrink_iters: 3000,
            max_global_rejects: 100_000,
            ..Config::default()
        };
        let mut runner = TestRunner::new(config);
        let strat = eng.strategy(tier);
        let result = runner.run(&strat, |bytes| {
            {
                let mut a = acc.borrow_mut();
                if let Some(f) = a.cur.as_mut() {
                    use std::io::Seek;
                    let _ = f.seek(std::io::SeekFrom::Start(0));
                    let _ = f.write_all(&(bytes.len() as u32).to_le_bytes());
                    let _ = f.write_all(&bytes);
                }
            }
            let out = eng.run(&bytes);
            let mut a = acc.borrow_mut();
            if !a.failed {
                a.evals += 1;
                for (i, s) in out.stats.iter().enumerate() {
                    if i < a.stats.len() {
                        a.stats[i] += *s as u64;
                    }
                }
                if out.nontrivial {
                    if a.hashes.insert(out.hash) && a.samples.len() < 3 && bytes.len() < 200 {
                        a.samples.push(bytes.clone());
                    }
                }
                for k in out.known.iter() {
                    *a.known.entry(k.clone()).or_insert(0) += 1;
                }
                for k in out.other.iter() {
                    let key: String = k.chars().take(3).collect();
                    *a.other.entry(key).or_insert(0) += 1;
                }
            }
            if !out.viol.is_empty() {
                a.failed = true;
                a.fail_msgs = out.viol.clone();
                return Err(TestCaseError::fail(out.viol[0].clone()));
            }
            Ok(())
        });
        match result {
            Ok(()) => {}
            Err(TestError::Fail(reason, value)) => {
                failure = Some((value, reason.message().to_string()));
            }
            Err(TestError::Abort(reason)) => {
                return json!({"idx": idx, "engine_error": format!("proptest aborted: {}", reason.message())});
            }
        }
    }
    let a = acc.into_inner();
    // write hashes for exact merging
    let hpath = work_dir().join(format!("{prop}.{idx}.hashes"));
    if let Ok(mut f) = std::fs::File::create(&hpath) {
        let mut buf = Vec::with_capacity(a.hashes.len() * 8);
        for h in a.hashes.iter() {
            buf.extend_from_slice(&h.to_le_bytes());
        }
        let _ = f.write_all(&buf);
    }
    let _ = std::fs::remove_file(&cur_path);
    let mut res = json!({
        "idx": idx,
        "build": if is_dbg_build() { "dbg" } else { "release" },
        "evaluations": a.evals,
        "stats": a.stats,
        "samples": a.samples.iter().map(|b| json!({"bytes_hex": hex(b), "decoded": eng.describe(b)})).collect::<Vec<_>>(),
        "known": a.known,
        "other_property_alarms": a.other,
        "wall_s": t0.elapsed().as_secs_f64(),
    });
    if let Some((bytes, msg)) = failure {
        // re-run the minimal case to get the full list of messages
        let out = eng.run(&bytes);
        res["failure"] = json!({"bytes_hex": hex(&bytes), "message": msg, "all_messages": out.viol, "decoded": eng.describe(&bytes)});
    }
    if let Some(sw) = sweep {
        res["sweep"] = json!({
            "evaluations": sw.evaluations, "nontrivial": sw.nontrivial,
            "viol": sw.viol.iter().map(|(m, v)| json!({"message": m, "item": v})).collect::<Vec<_>>(),
            "known": sw.known, "samples": sw.samples, "extra": sw.extra, "exhaustive": sw.exhaustive,
        });
    }
    res
}

// ---------------------------------------------------------------------------------------------
// parent

fn write_replay(prop: &str, tag: &str, body: &Value) -> String {
    let dir = format!("{}/replays", verif_root());
    let _ = std::fs::create_dir_all(&dir);
    let path = format!("{dir}/{prop}-{tag}.json");
    let _ = std::fs::write(&path, serde_json::to_string_pretty(body).unwrap());
    path
}

/// run a replay child with a watchdog; None = it had to be stopped (hang): inconclusive, never a violation
fn status_with_timeout(cmd: &mut Command, secs: u64) -> Option<std::process::ExitStatus> {
    let mut child = cmd.spawn().ok()?;
    wait_with_timeout(&mut child, Instant::now() + Duration::from_secs(secs))
}

enum WaitOutcome {
    Exited(std::process::ExitStatus),
    Budget,
    /// the worker has been sitting on one case / sweep item for longer than `stall_secs`
    Stalled,
}

fn file_age(p: &Path) -> Option<Duration> {
    std::fs::metadata(p).ok()?.modified().ok()?.elapsed().ok()
}

fn wait_stall_aware(child: &mut std::process::Child, deadline: Instant, cur: &Path, swp: &Path, stall_secs: u64) -> WaitOutcome {
    loop {
        match child.try_wait() {
            Ok(Some(st)) => return WaitOutcome::Exited(st),
            Ok(None) => {
                if Instant::now() > deadline {
                    let _ = child.kill();
                    let _ = child.wait();
                    return WaitOutcome::Budget;
                }
                let age = match (file_age(cur), file_age(swp)) {
                    (Some(a), Some(b)) => Some(a.min(b)),
                    (a, b) => a.or(b),
                };
                if let Some(a) = age {
                    if a > Duration::from_secs(stall_secs) {
                        let _ = child.kill();
                        let _ = child.wait();
                        return WaitOutcome::Stalled;
                    }
                }
                std::thread::sleep(Duration::from_millis(25));
            }
            Err(_) => return WaitOutcome::Budget,
        }
    }
}

fn wait_with_timeout(child: &mut std::process::Child, deadline: Instant) -> Option<std::process::ExitStatus> {
    loop {
        match child.try_wait() {
            Ok(Some(st)) => return Some(st),
            Ok(None) => {
                if Instant::now() > deadline {
                    let _ = child.kill();
                    let _ = child.wait();
                    return None;
                }
                std::thread::sleep(Duration::from_millis(20));
            }
            Err(_) => return None,
        }
    }
}

/// Runs the whole check for one property. Returns the process exit code.
pub fn check_main(eng: &dyn Engine, tier: Tier) -> i32 {
    let prop = eng.prop();
    let seed = seed_from_env();
    let t0 = Instant::now();
    let exe = std::env::current_exe().expect("current_exe");
    let nworkers = eng.workers(tier);
    let budget = Duration::from_secs(match tier {
        Tier::Quick => 600,
        Tier::Thorough => 5400,
    });
    let deadline = Instant::now() + budget;
    let mut violations: Vec<(String, String)> = vec![]; // (message, replay path)
    let mut inconclusive: Vec<String> = vec![];
    let known = load_known();
    let my_known: Vec<&Known> = known.iter().filter(|k| k.prop == prop).collect();

    // 1. regression tier: committed replay files of earlier confirmed failures
    let mut regress_run = 0;
    let rdir = format!("{}/regress/{prop}", verif_root());
    if let Ok(rd) = std::fs::read_dir(&rdir) {
        let mut files: Vec<PathBuf> = rd.filter_map(|e| e.ok()).map(|e| e.path()).filter(|p| p.extension().map_or(false, |x| x == "json")).collect();
        files.sort();
        for f in files {
            regress_run += 1;
            let out = status_with_timeout(Command::new(&exe).args(["replay", f.to_str().unwrap()]).stdout(Stdio::null()).stderr(Stdio::null()), 300).ok_or_else(|| "had to be stopped after 300 s".to_string());
            match out {
                Ok(o) => {
                    let code = o.code();
                    if code == Some(1) {
                        violations.push((format!("regression case {} fails again", f.display()), f.display().to_string()));
                    } else if code != Some(0) {
                        if eng.crash_is_violation() && code.is_none() {
                            violations.push((format!("regression case {} kills the process", f.display()), f.display().to_string()));
                        } else {
                            inconclusive.push(format!("regression replay {} exited with {:?}", f.display(), code));
                        }
                    }
                }
                Err(e) => inconclusive.push(format!("cannot run regression replay: {e}")),
            }
        }
    }

    // 2. workers
    let mut children = vec![];
    let dbg_exe = dbg_twin(&exe);
    for idx in 0..nworkers {
        let use_exe = match (&dbg_exe, idx % 2) {
            (Some(d), 1) => d.clone(),
            _ => exe.clone(),
        };
        let child = Command::new(&use_exe)
            .args(["worker", prop, tier.name(), &seed.to_string(), &idx.to_string(), &nworkers.to_string()])
            .stdout(Stdio::piped())
            .stderr(Stdio::piped())
            .spawn();
        match child {
            Ok(c) => children.push((idx, c)),
            Err(e) => inconclusive.push(format!("cannot spawn worker {idx}: {e}")),
        }
    }
    let mut results: Vec<Value> = vec![];
    let mut stalls_seen = 0u32;
    for (idx, mut c) in children {
        // drain stdout in a thread to avoid pipe dead-lock
        let mut so = c.stdout.take().unwrap();
        let mut se = c.stderr.take().unwrap();
        let h = std::thread::spawn(move || {
            let mut s = String::new();
            let _ = so.read_to_string(&mut s);
            s
        });
        let he = std::thread::spawn(move || {
            let mut s = String::new();
            let _ = se.read_to_string(&mut s);
            s
        });
        let cur_p = work_dir().join(format!("{prop}.{idx}.cur"));
        let swp_p = work_dir().join(format!("{prop}.{idx}.sweepcur"));
        let stall_secs: u64 = if tier == Tier::Thorough { 150 } else { 45 };
        let wo = wait_stall_aware(&mut c, deadline, &cur_p, &swp_p, stall_secs);
        let stdout = h.join().unwrap_or_default();
        let stderr = he.join().unwrap_or_default();
        let st = match wo {
            WaitOutcome::Exited(st) => Some(st),
            WaitOutcome::Budget => None,
            WaitOutcome::Stalled => {
                // which case was it sitting on? replay it alone, with the same patience
                let build = if idx % 2 == 1 && dbg_exe.is_some() { "dbg" } else { "release" };
                let body = if file_age(&swp_p).is_some() && (file_age(&cur_p).is_none() || file_age(&swp_p) < file_age(&cur_p)) {
                    std::fs::read_to_string(&swp_p).ok().and_then(|t| serde_json::from_str::<Value>(&t).ok()).map(|item| json!({"property": prop, "engine": "sweep", "seed": seed, "build": build, "item": item, "failure": format!("worker made no progress for {stall_secs} s on this item")}))
                } else {
                    std::fs::read(&cur_p).ok().and_then(|data| {
                        if data.len() < 4 {
                            return None;
                        }
                        let n = u32::from_le_bytes([data[0], data[1], data[2], data[3]]) as usize;
                        data.get(4..4 + n).map(|bytes| json!({"property": prop, "engine": "proptest", "seed": seed, "build": build, "bytes_hex": hex(bytes), "decoded": eng.describe(bytes), "failure": format!("worker made no progress for {stall_secs} s on this case")}))
                    })
                };
                let _ = std::fs::remove_file(&swp_p);
                let _ = std::fs::remove_file(&cur_p);
                stalls_seen += 1;
                match body {
                    None => inconclusive.push(format!("worker {idx} stalled for {stall_secs} s and the case it was on could not be recovered")),
                    Some(_) if stalls_seen > 2 => {
                        // two stalls have already been replayed on their own; do not spend the patience again
                        inconclusive.push(format!("worker {idx} stalled for {stall_secs} s as well (not replayed: two earlier stalls of this run were)"));
                    }
                    Some(body) => {
                        let path = write_replay(prop, &format!("stall-{idx}"), &body);
                        match status_with_timeout(Command::new(&exe).args(["replay", &path]).stdout(Stdio::null()).stderr(Stdio::null()), stall_secs) {
                            None => {
                                if eng.hang_is_violation() {
                                    violations.push((format!("a generated case did not terminate: no progress for {stall_secs} s in the worker and again for {stall_secs} s when replayed alone (normal cases take milliseconds)"), path));
                                } else {
                                    inconclusive.push(format!("worker {idx} stalled for {stall_secs} s; the case also stalls when replayed alone ({path}); a hang is not a violation of {prop}"));
                                }
                            }
                            Some(o) if o.code() == Some(1) || (o.code().is_none() && eng.crash_is_violation()) => {
                                violations.push((format!("worker {idx} stalled; replayed alone the case fails"), path));
                            }
                            Some(_) => inconclusive.push(format!("worker {idx} stalled for {stall_secs} s but the case finishes when replayed alone ({path})")),
                        }
                    }
                }
                continue;
            }
        };
        match st {
            None => inconclusive.push(format!("worker {idx} hit the time budget and was stopped")),
            Some(st) if st.success() => match serde_json::from_str::<Value>(stdout.trim()) {
                Ok(v) => results.push(v),
                Err(e) => inconclusive.push(format!("worker {idx} produced unparsable output: {e}")),
            },
            Some(st) => {
                // died: try to reproduce on the case it was running
                let cur = work_dir().join(format!("{prop}.{idx}.cur"));
                let mut reproduced = false;
                let swp = work_dir().join(format!("{prop}.{idx}.sweepcur"));
                if let Ok(text) = std::fs::read_to_string(&swp) {
                    if let Ok(item) = serde_json::from_str::<Value>(&text) {
                        let body = json!({"property": prop, "engine": "sweep", "seed": seed, "build": if idx % 2 == 1 && dbg_exe.is_some() { "dbg" } else { "release" }, "item": item, "failure": format!("worker process died ({st}) while executing this item of the systematic part")});
                        let path = write_replay(prop, &format!("sweepcrash-{idx}"), &body);
                        let o = status_with_timeout(Command::new(&exe).args(["replay", &path]).stdout(Stdio::null()).stderr(Stdio::null()), 120);
                        if o.is_none() {
                            inconclusive.push(format!("replaying the item worker {idx} died on had to be stopped after 120 s"));
                        }
                        if let Some(o) = o {
                            if o.code().is_none() || o.code() == Some(1) {
                                reproduced = true;
                                if eng.crash_is_violation() || o.code() == Some(1) {
                                    violations.push((format!("process died ({st}) while executing an item of the systematic part; reproduces"), path));
                                } else {
                                    inconclusive.push(format!("worker {idx} died ({st}) in the systematic part; reproduces but a crash is not a violation of {prop}"));
                                }
                            }
                        }
                    }
                    let _ = std::fs::remove_file(&swp);
                }
                if let Ok(data) = std::fs::read(&cur) {
                    if data.len() >= 4 {
                        let n = u32::from_le_bytes([data[0], data[1], data[2], data[3]]) as usize;
                        if data.len() >= 4 + n {
                            let bytes = &data[4..4 + n];
                            let body = json!({"property": prop, "engine": "proptest", "seed": seed, "build": if idx % 2 == 1 && dbg_exe.is_some() { "dbg" } else { "release" }, "bytes_hex": hex(bytes), "decoded": eng.describe(bytes), "failure": format!("worker process died ({st})")});
                            let path = write_replay(prop, &format!("crash-{idx}"), &body);
                            let o = status_with_timeout(Command::new(&exe).args(["replay", &path]).stdout(Stdio::null()).stderr(Stdio::null()), 120);
                            if o.is_none() {
                                inconclusive.push(format!("replaying the case worker {idx} died on had to be stopped after 120 s"));
                            }
                            if let Some(o) = o {
                                if o.code().is_none() || o.code() == Some(1) {
                                    reproduced = true;
                                    if eng.crash_is_violation() || o.code() == Some(1) {
                                        violations.push((format!("process died ({st}) while running a generated case; reproduces"), path));
                                    } else {
                                        inconclusive.push(format!("worker {idx} died ({st}); reproduces but a crash is not a violation of {prop}"));
                                    }
                                }
                            }
                        }
                    }
                }
                if !reproduced {
                    inconclusive.push(format!("worker {idx} died ({st}) and the death did not reproduce; stderr: {}", stderr.chars().take(400).collect::<String>()));
                }
            }
        }
    }

    // 2b. thorough tier: coverage-guided campaign on the same decoder/interpreter/oracles
    let mut fuzz_cov: Option<Value> = None;
    if tier == Tier::Thorough {
        if let Some(spec) = eng.fuzz() {
            let fo = fuzz_campaign(eng, &spec, seed, deadline);
            let mut confirmed = 0;
            for (j, (bytes, line)) in fo.crashes.iter().enumerate() {
                // a crash only counts if the saved input fails again when replayed on its own
                match fuzz_replay(spec.target, prop, bytes) {
                    Ok(Some(msg)) => {
                        confirmed += 1;
                        let body = json!({"property": prop, "engine": "libfuzzer", "target": spec.target, "seed": seed, "bytes_hex": hex(bytes), "failure": msg});
                        let path = write_replay(prop, &format!("fuzz{j}"), &body);
                        violations.push((format!("libFuzzer ({}): {}", spec.target, line), path));
                    }
                    Ok(None) => inconclusive.push(format!("a libFuzzer crash of {} did not reproduce from its saved input", spec.target)),
                    Err(e) => inconclusive.push(e),
                }
            }
            for n in fo.notes.iter() {
                inconclusive.push(format!("fuzz: {n}"));
            }
            fuzz_cov = Some(json!({"target": spec.target, "processes": 8, "seed_inputs": fo.seeds, "executions": fo.execs, "features_sum": fo.features, "corpus_sum": fo.corpus, "crashes": fo.crashes.len(), "crashes_confirmed_by_replay": confirmed,
                "build": "cargo +nightly fuzz build: AddressSanitizer, debug assertions and overflow checks on"}));
        }
    }

    // 3. aggregate
    let names = eng.stat_names();
    let mut stats = vec![0u64; names.len()];
    let mut evaluations = 0u64;
    let mut samples: Vec<Value> = vec![];
    let mut known_seen: BTreeMap<String, u64> = BTreeMap::new();
    let mut other: BTreeMap<String, u64> = BTreeMap::new();
    let mut hashes: HashSet<u64> = HashSet::new();
    let mut sweep_evals = 0u64;
    let mut sweep_nt = 0u64;
    let mut sweep_extra: BTreeMap<String, Value> = BTreeMap::new();
    let mut sweep_samples: Vec<Value> = vec![];
    let mut sweep_exhaustive = true;
    let mut any_sweep = false;
    for r in results.iter() {
        if let Some(e) = r.get("engine_error") {
            inconclusive.push(format!("worker engine error: {e}"));
            continue;
        }
        evaluations += r["evaluations"].as_u64().unwrap_or(0);
        if let Some(a) = r["stats"].as_array() {
            for (i, v) in a.iter().enumerate() {
                if i < stats.len() {
                    stats[i] += v.as_u64().unwrap_or(0);
                }
            }
        }
        if let Some(a) = r["samples"].as_array() {
            for s in a {
                if samples.len() < 5 {
                    samples.push(s.clone());
                }
            }
        }
        if let Some(m) = r["known"].as_object() {
            for (k, v) in m {
                *known_seen.entry(k.clone()).or_insert(0) += v.as_u64().unwrap_or(0);
            }
        }
        if let Some(m) = r["other_property_alarms"].as_object() {
            for (k, v) in m {
                *other.entry(k.clone()).or_insert(0) += v.as_u64().unwrap_or(0);
            }
        }
        let idx = r["idx"].as_u64().unwrap_or(0);
        let hp = work_dir().join(format!("{prop}.{idx}.hashes"));
        if let Ok(data) = std::fs::read(&hp) {
            for ch in data.chunks_exact(8) {
                hashes.insert(u64::from_le_bytes(ch.try_into().unwrap()));
            }
            let _ = std::fs::remove_file(&hp);
        }
        if let Some(f) = r.get("failure") {
            let body = json!({"property": prop, "engine": "proptest", "seed": seed, "build": r["build"], "bytes_hex": f["bytes_hex"], "decoded": f["decoded"], "failure": f["all_messages"]});
            let path = write_replay(prop, &format!("w{idx}"), &body);
            violations.push((f["message"].as_str().unwrap_or("").to_string(), path));
        }
        if let Some(sw) = r.get("sweep") {
            any_sweep = true;
            sweep_evals += sw["evaluations"].as_u64().unwrap_or(0);
            sweep_nt += sw["nontrivial"].as_u64().unwrap_or(0);
            if !sw["exhaustive"].as_bool().unwrap_or(false) {
                sweep_exhaustive = false;
            }
            if let Some(m) = sw["extra"].as_object() {
                for (k, v) in m {
                    match (sweep_extra.get(k).and_then(|x| x.as_u64()), v.as_u64()) {
                        (Some(a), Some(b)) => {
                            sweep_extra.insert(k.clone(), json!(a + b));
                        }
                        _ => {
                            sweep_extra.entry(k.clone()).or_insert(v.clone());
                        }
                    }
                }
            }
            if let Some(a) = sw["samples"].as_array() {
                for s in a {
                    if sweep_samples.len() < 4 {
                        sweep_samples.push(s.clone());
                    }
                }
            }
            if let Some(a) = sw["known"].as_array() {
                for k in a {
                    *known_seen.entry(k.as_str().unwrap_or("").to_string()).or_insert(0) += 1;
                }
            }
            if let Some(a) = sw["viol"].as_array() {
                for (j, v) in a.iter().enumerate() {
                    if j < 3 {
                        let body = json!({"property": prop, "engine": "sweep", "seed": seed, "build": r["build"], "item": v["item"], "failure": v["message"]});
                        let path = write_replay(prop, &format!("sweep{idx}-{j}"), &body);
                        violations.push((v["message"].as_str().unwrap_or("").to_string(), path));
                    }
                }
            }
        }
    }
    if let Some(n) = other.get("ENG") {
        inconclusive.push(format!("{n} generated cases hit a harness/engine error (see evidence)"));
    }
    if let Some(n) = sweep_extra.get("engine_errors").and_then(|v| v.as_u64()) {
        if n > 0 {
            inconclusive.push(format!("{n} engine errors in the systematic part: {}", sweep_extra.get("engine_error_list").map(|v| v.to_string()).unwrap_or_default()));
        }
    }
    let wall = t0.elapsed().as_secs_f64();
    let hist: BTreeMap<&str, u64> = names.iter().cloned().zip(stats.iter().cloned()).collect();
    samples.extend(sweep_samples);
    if samples.is_empty() {
        samples.push(json!("no non-trivial sample recorded"));
    }
    let mut coverage = json!({
        "evaluations": evaluations + sweep_evals,
        "distinct_nontrivial": hashes.len() as u64 + sweep_nt,
        "rule": eng.rule(),
        "samples": samples,
        "generated_cases": evaluations,
        "generated_distinct_nontrivial": hashes.len(),
        "event_histogram": hist,
        "workers": nworkers,
        "workers_on_build_with_debug_assertions_and_ub_checks": if dbg_exe.is_some() { nworkers / 2 } else { 0 },
        "regression_cases_replayed": regress_run,
        "known_findings_observed": known_seen,
        "alarms_of_other_properties_seen_and_ignored_here": other,
        "inconclusive": inconclusive,
    });
    if any_sweep {
        coverage["sweep_evaluations"] = json!(sweep_evals);
        coverage["sweep_nontrivial"] = json!(sweep_nt);
        coverage["sweep_exhaustive_over_its_stated_box"] = json!(sweep_exhaustive);
        for (k, v) in sweep_extra {
            coverage[format!("sweep_{k}")] = v;
        }
    }
    if eng.level() == "other" {
        coverage["explanation"] = json!(eng.rule());
    }
    if let Some(f) = fuzz_cov {
        coverage["libfuzzer_campaign"] = f;
    }
    let ev = json!({
        "property_id": prop,
        "tier": tier.name(),
        "seed": seed,
        "level": eng.level(),
        "coverage": coverage,
        "assumptions": eng.assumptions(),
        "wall_s": wall,
        "violations": violations.len(),
    });
    let _ = std::fs::create_dir_all(format!("{}/evidence", verif_root()));
    let _ = std::fs::write(format!("{}/evidence/{prop}.json", verif_root()), serde_json::to_string_pretty(&ev).unwrap());

    for k in my_known.iter() {
        let n = known_seen.get(&k.sig).cloned().unwrap_or(0);
        println!("KNOWN-FINDING: property={prop} {} (sig={}, observed {n}x in this run)", k.text, k.sig);
    }
    println!(
        "{prop} {}: {} cases generated, {} distinct non-trivial, sweep {} ({} non-trivial), {} violations, {:.1}s",
        tier.name(),
        evaluations,
        hashes.len(),
        sweep_evals,
        sweep_nt,
        violations.len(),
        wall
    );
    if !violations.is_empty() {
        for (msg, path) in violations.iter().take(5) {
            println!("  {msg}");
            println!("VIOLATION property={prop} replay={path}");
        }
        return 1;
    }
    if !inconclusive.is_empty() {
        for m in inconclusive.iter() {
            eprintln!("INCONCLUSIVE: {m}");
        }
        return 2;
    }
    0
}

pub fn replay_main(lookup: &dyn Fn(&str) -> Option<Box<dyn Engine>>, path: &str) -> i32 {
    install_quiet_panic_hook();
    let Ok(s) = std::fs::read_to_string(Path::new(path)) else {
        eprintln!("cannot read {path}");
        return 2;
    };
    let Ok(v) = serde_json::from_str::<Value>(&s) else {
        eprintln!("cannot parse {path}");
        return 2;
    };
    if v["build"] == "dbg" && !is_dbg_build() {
        // found by the build with debug assertions: replay it there
        if let Some(d) = std::env::current_exe().ok().and_then(|e| dbg_twin(&e)) {
            let st = Command::new(d).args(["replay", path]).status();
            return match st.map(|s| s.code()) {
                Ok(Some(c)) => c,
                _ => {
                    println!("VIOLATION property={} replay={path}", v["property"].as_str().unwrap_or(""));
                    1
                }
            };
        }
    }
    let prop = v["property"].as_str().unwrap_or("");
    let Some(eng) = lookup(prop) else {
        eprintln!("no engine for {prop} in this binary");
        return 2;
    };
    let msgs = if v["engine"] == "libfuzzer" {
        let bytes = unhex(v["bytes_hex"].as_str().unwrap_or(""));
        match fuzz_replay(v["target"].as_str().unwrap_or(""), prop, &bytes) {
            Ok(Some(m)) => vec![m],
            Ok(None) => vec![],
            Err(e) => {
                eprintln!("{e}");
                return 2;
            }
        }
    } else if v["engine"] == "sweep" {
        eng.replay_sweep(&v["item"])
    } else {
        let bytes = unhex(v["bytes_hex"].as_str().unwrap_or(""));
        println!("{}", serde_json::to_string_pretty(&eng.describe(&bytes)).unwrap());
        let out = eng.run(&bytes);
        for k in out.known.iter() {
            println!("KNOWN-FINDING: property={prop} sig={k}");
        }
        out.viol
    };
    if msgs.is_empty() {
        println!("replay of {path}: property {prop} held");
        0
    } else {
        for m in msgs.iter() {
            println!("  {m}");
        }
        println!("VIOLATION property={prop} replay={path}");
        1
    }
}

pub fn cli_main(lookup: &dyn Fn(&str) -> Option<Box<dyn Engine>>) -> ! {
    let args: Vec<String> = std::env::args().collect();
    let code = match args.get(1).map(|s| s.as_str()) {
        Some("check") => {
            let prop = args.get(2).cloned().unwrap_or_default();
            let tier = Tier::parse(args.get(3).map(|s| s.as_str()).unwrap_or("quick"));
            match lookup(&prop) {
                Some(e) => check_main(&*e, tier),
                None => {
                    eprintln!("unknown property {prop}");
                    2
                }
            }
        }
        Some("worker") => {
            let prop = args[2].clone();
            let tier = Tier::parse(&args[3]);
            let seed: u64 = args[4].parse().unwrap_or(0);
            let idx: u32 = args[5].parse().unwrap_or(0);
            let nw: u32 = args[6].parse().unwrap_or(1);
            match lookup(&prop) {
                Some(e) => {
                    let v = worker_main(&*e, tier, seed, idx, nw);
                    println!("{}", v);
                    0
                }
                None => 2,
            }
        }
        Some("replay") => replay_main(lookup, &args[2]),
        _ => {
            eprintln!("usage: <bin> check <PROP> quick|thorough | replay <file>");
            2
        }
    };
    std::process::exit(code)
}

#[allow(dead_code)]
fn _unused(_: &dyn ValueTree<Value = u8>) {}
