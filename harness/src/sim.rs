//! Arena interpreter core (DESIGN §2.4): shadow model, per-step observation and oracles.

use crate::ledger::{self, enter_arena, Block, EvKind, Event};
use crate::types::*;
use bumpalo::Bump;
use std::alloc::Layout;
use std::panic::{catch_unwind, AssertUnwindSafe};

#[derive(Clone, Debug)]
pub struct Violation {
    pub prop: &'static str,
    pub op: usize,
    pub msg: String,
}

#[derive(Clone, Copy, Debug, PartialEq, Eq)]
pub struct Op {
    pub code: u8,
    pub a: u8,
    pub b: u8,
    pub c: u8,
}

#[derive(Clone, Copy, Debug, PartialEq, Eq)]
pub enum OpKind {
    Alloc,
    Dealloc,
    Grow,
    Shrink,
    Reset,
    Limit,
    Plan,
    Probe,
    HandOver,
    HandOverDrop,
    Ctor,
    Drop,
    Nop,
}

/// counters used by the non-trivial rules and reported as the event histogram
#[derive(Clone, Copy, Debug, PartialEq, Eq)]
#[repr(usize)]
pub enum St {
    Ops,
    AllocOk,
    AllocErr,
    AllocPanic,
    TryPanic,
    NewChunk,
    Refusal,
    LimitSetOps,
    LimitedChunkGranted,
    LimitedFail,
    Dealloc,
    DeallocLast,
    GrowInPlace,
    GrowMoved,
    GrowFail,
    ShrinkInPlace,
    ShrinkMoved,
    ShrinkNoop,
    GrowDiffAlign,
    RewindSame,
    RewindNewChunk,
    InitErr,
    InitKept,
    FillFail,
    Reset,
    ResetMulti,
    ResetPartial,
    ResetEmpty,
    Refill,
    ZstOnChunkless,
    OddResidueAlign,
    Live2,
    Probe,
    HandOver,
    Huge,
    FitChecked,
    ChunkFreed,
    ErrAfterFault,
    TwinPanic,
    Handoff,
    N,
}
/// "doubling" is checked up to this many bytes: rounding constants of the chunk-size computation are not part of C18
pub const DOUBLING_SLACK: usize = 256;
pub const NST: usize = St::N as usize;
pub const ST_NAMES: [&str; NST] = [
    "ops", "alloc_ok", "alloc_err", "alloc_panic", "try_panic", "new_chunk", "refusal", "limit_set_ops",
    "limited_chunk_granted", "limited_fail", "dealloc", "dealloc_last", "grow_in_place", "grow_moved",
    "grow_fail", "shrink_in_place", "shrink_moved", "shrink_noop", "grow_shrink_diff_align", "rewind_same_chunk",
    "rewind_new_chunk", "init_err", "init_kept_block", "fill_fail", "reset", "reset_multi_chunk",
    "reset_partial_chunk", "reset_chunkless", "refill_after_reset", "zst_on_chunkless", "odd_residue_align",
    "two_live_blocks", "capacity_probe", "hand_over", "huge_request", "fit_checked", "chunk_freed",
    "err_after_fault", "twin_panic", "collection_handoff",
];

#[derive(Clone, Debug)]
pub struct SBlock {
    pub id: u32,
    pub ptr: usize,
    pub size: usize,
    pub align: usize,
    /// may be handed to deallocate/grow/shrink with Layout(size, align)
    pub freeable: bool,
    /// the whole extent reserved for it (== ptr,size except for T inside a Result slot)
    pub slot: usize,
    pub slot_size: usize,
    /// allocated and kept by a fallible initialiser that then failed or succeeded (C11: must stay valid)
    pub kept: bool,
}

/// What one step looked like from outside; compared between twins / solo vs interleaved.
#[derive(Clone, Debug, PartialEq, Eq)]
pub struct TraceItem {
    pub outcome: u8, // 0 ok, 1 err, 2 panic, 3 skipped
    pub chunk: i32,
    pub off: usize,
    pub len: usize,
    pub cap: usize,
    pub ab: usize,
    pub abm: usize,
    pub nchunks: usize,
    pub ev: Vec<(u8, usize, usize)>,
}

pub const OUT_OK: u8 = 0;
pub const OUT_ERR: u8 = 1;
pub const OUT_PANIC: u8 = 2;
pub const OUT_SKIP: u8 = 3;

#[derive(Clone, Copy, Debug, Default)]
pub struct SimOpts {
    /// all requests use this alignment and sizes that are multiples of it (C10 exact part)
    pub uniform: Option<usize>,
    /// flip every fallible/infallible choice (C09 twin)
    pub flip_fallible: bool,
    pub record_trace: bool,
    /// force every fallible/infallible choice (C09 twin: Some(true) = try_ spelling, Some(false) = panicking spelling)
    pub force_fallible: Option<bool>,
    /// several threads drive arenas concurrently: only drain this arena's ledger events
    pub threaded: bool,
    /// C07 metamorphic twins: 0 = as decoded, 1 = every set_allocation_limit is skipped,
    /// 2 = every set_allocation_limit(x) is immediately followed by set_allocation_limit(None)
    pub limit_mode: u8,
}

pub struct Sim<const M: usize> {
    pub id: u32,
    pub bump: Option<Bump<M>>,
    pub blocks: Vec<SBlock>,
    pub chunks: Vec<Block>,
    pub limit: Option<usize>,
    pub k_meta: usize,
    pub viol: Vec<Violation>,
    pub stats: [u32; NST],
    pub trace: Vec<TraceItem>,
    pub opts: SimOpts,
    pub opi: usize,
    pub next_id: u32,
    pub evbuf: Vec<Event>,
    pub blkbuf: Vec<Block>,
    pub last_ab: usize,
    pub last_abm: usize,
    pub last_cap: usize,
    pub had_err: bool,
    pub after_reset: bool,
    /// a limit is in force that was set before the most recent reset (C06: reset keeps the limit)
    pub limit_predates_reset: bool,
    pub no_limit_no_fault: bool,
    pub last_chunk_size: usize,
    pub total_requested: usize,
    pub dropped: bool,
    pub step_events: Vec<(u8, usize, usize)>,
    pub unknown_frees: u32,
}

pub fn panic_msg(e: Box<dyn std::any::Any + Send>) -> String {
    if let Some(s) = e.downcast_ref::<&str>() {
        s.to_string()
    } else if let Some(s) = e.downcast_ref::<String>() {
        s.clone()
    } else {
        "<non-string panic>".to_string()
    }
}

pub fn round_up(n: usize, d: usize) -> usize {
    (n + d - 1) & !(d - 1)
}

/// measured per-chunk bookkeeping overhead (ledger size - chunk_capacity of a fresh arena)
pub fn measure_k() -> usize {
    ledger::begin_case(0);
    let k;
    {
        let g = enter_arena(15);
        let b = Bump::<1>::with_capacity(1);
        let cap = b.chunk_capacity();
        drop(g);
        let mut v = Vec::new();
        ledger::blocks(15, &mut v);
        k = v.iter().filter(|b| b.live).map(|b| b.size).sum::<usize>() - cap;
        let _g = enter_arena(15);
        drop(b);
    }
    ledger::end_case();
    k
}

impl<const M: usize> Sim<M> {
    pub fn new(id: u32, k_meta: usize, opts: SimOpts) -> Self {
        Sim {
            id,
            bump: None,
            blocks: Vec::new(),
            chunks: Vec::new(),
            limit: None,
            k_meta,
            viol: Vec::new(),
            stats: [0; NST],
            trace: Vec::new(),
            opts,
            opi: 0,
            next_id: 1,
            evbuf: Vec::new(),
            blkbuf: Vec::new(),
            last_ab: 0,
            last_abm: 0,
            last_cap: 0,
            had_err: false,
            after_reset: false,
            limit_predates_reset: false,
            no_limit_no_fault: true,
            last_chunk_size: 0,
            total_requested: 0,
            dropped: false,
            step_events: Vec::new(),
            unknown_frees: 0,
        }
    }

    #[inline]
    pub fn st(&mut self, s: St) {
        self.stats[s as usize] += 1;
    }

    pub fn v(&mut self, prop: &'static str, msg: String) {
        // (robust against being called in arena mode: the message is re-created in user mode)
        let _u = crate::ledger::enter_user();
        let m2 = String::from(msg.as_str());
        drop(msg);
        if self.viol.len() < 32 {
            let op = self.opi;
            self.viol.push(Violation { prop, op, msg: m2 });
        }
    }

    pub fn fresh_id(&mut self) -> u32 {
        let i = self.next_id;
        self.next_id += 1;
        i
    }

    /// Run bumpalo code for this arena: arena mode + catch_unwind. Err = panic message.
    pub fn call<R>(&self, f: impl FnOnce(&Bump<M>) -> R) -> Result<R, String> {
        let bump = self.bump.as_ref().expect("arena exists");
        let r = {
            let _g = enter_arena(self.id);
            catch_unwind(AssertUnwindSafe(|| f(bump)))
        };
        r.map_err(panic_msg)
    }

    pub fn call_mut<R>(&mut self, f: impl FnOnce(&mut Bump<M>) -> R) -> Result<R, String> {
        let id = self.id;
        let bump = self.bump.as_mut().expect("arena exists");
        let r = {
            let _g = enter_arena(id);
            catch_unwind(AssertUnwindSafe(|| f(bump)))
        };
        r.map_err(panic_msg)
    }

    pub fn held_usable(&self) -> usize {
        self.chunks.iter().map(|c| c.size.saturating_sub(self.k_meta)).sum()
    }
    pub fn held_total(&self) -> usize {
        self.chunks.iter().map(|c| c.size).sum()
    }

    /// Does a request of this layout provably fit in the current chunk?
    pub fn provably_fits(&self, l: Layout) -> bool {
        let a = l.align();
        let need = match round_up_checked(l.size(), a.max(M)) {
            Some(s) => s.checked_add(if a > M { a - M } else { 0 }),
            None => None,
        };
        match need {
            Some(n) => n <= self.last_cap,
            None => false,
        }
    }

    /// Find the chunk (index in acquisition order) containing [p, p+len)
    pub fn locate(&self, p: usize, len: usize) -> Option<(usize, usize)> {
        for (i, c) in self.chunks.iter().enumerate() {
            let end = c.base + c.size.saturating_sub(self.k_meta);
            if p >= c.base && p.checked_add(len).map_or(false, |e| e <= end) {
                return Some((i, p - c.base));
            }
        }
        None
    }

    /// C01/C04 checks for a block just handed out; returns false if it must not be written to.
    pub fn check_new_block(&mut self, what: &str, p: usize, size: usize, align: usize, exclude: Option<u32>) -> bool {
        self.check_new_block_ex(what, p, size, align, exclude, true)
    }

    /// `min_applies` is false for a `T` that lives inside a larger reserved slot (the `Result<T, E>` of
    /// the `_try_with` methods): only the slot itself is subject to the minimum alignment.
    pub fn check_new_block_ex(&mut self, what: &str, p: usize, size: usize, align: usize, exclude: Option<u32>, min_applies: bool) -> bool {
        let mut ok = true;
        if p == 0 {
            self.v("C01", format!("{what}: returned a null pointer"));
            return false;
        }
        let eff = if min_applies { align.max(M) } else { align };
        if p % eff != 0 {
            self.v("C04", format!("{what}: pointer {p:#x} (size {size}) is not aligned to max(requested {align}, MIN_ALIGN {M}); residue {}", p % eff));
            if p % align != 0 {
                ok = false;
            }
        }
        if size == 0 {
            return ok;
        }
        if self.locate(p, size).is_none() {
            self.v("C01", format!("{what}: block [{p:#x}, +{size}) is not inside the usable part of any chunk the arena currently holds ({} chunks)", self.chunks.len()));
            return false;
        }
        for b in self.blocks.iter() {
            if Some(b.id) == exclude || b.size == 0 {
                continue;
            }
            if p < b.ptr + b.size && b.ptr < p + size {
                let m = format!("{what}: new block [{p:#x}, +{size}) overlaps live block #{} [{:#x}, +{})", b.id, b.ptr, b.size);
                let kept = b.kept;
                self.v("C01", m.clone());
                if kept {
                    self.v("C11", format!("a block the initialiser allocated and kept was handed out again: {m}"));
                }
                return false;
            }
        }
        ok
    }

    /// An Allocator method returned a slice longer than the layout asked for: the caller may use all of it, so the
    /// excess must be the arena's to give (inside a chunk, touching no other live block).
    pub fn check_excess(&mut self, what: &str, p: usize, size: usize, len: usize, exclude: Option<u32>) {
        if len <= size || p == 0 {
            return;
        }
        if self.locate(p, len).is_none() {
            let m = format!("{what}: the returned slice claims {len} bytes (layout size {size}) and reaches outside the usable part of the chunk");
            self.v("C01", m.clone());
            self.v("C12", m);
            return;
        }
        let mut msgs = vec![];
        for b in self.blocks.iter() {
            if Some(b.id) == exclude || b.size == 0 {
                continue;
            }
            if p + size < b.ptr + b.size && b.ptr < p + len {
                msgs.push(format!("{what}: the returned slice claims {len} bytes (layout size {size}); its excess overlaps live block #{} [{:#x}, +{})", b.id, b.ptr, b.size));
            }
        }
        for m in msgs {
            // (like any other overlap of two live blocks: the neighbour's bytes are now writable through a reference that is not its owner's)
            self.v("C01", m.clone());
            self.v("C02", m.clone());
            self.v("C12", m);
        }
    }

    pub fn add_block(&mut self, id: u32, ptr: usize, size: usize, align: usize, freeable: bool) {
        self.blocks.push(SBlock { id, ptr, size, align, freeable, slot: ptr, slot_size: size, kept: false });
        if self.blocks.iter().filter(|b| b.size > 0).count() >= 2 {
            self.st(St::Live2);
        }
    }

    /// Drain ledger events produced by the step that just ran and apply the event oracles.
    pub fn absorb_events(&mut self, kind: OpKind) {
        let mut evs = std::mem::take(&mut self.evbuf);
        if self.opts.threaded {
            ledger::take_events_for(self.id, &mut evs);
        } else {
            ledger::take_events(&mut evs);
        }
        self.step_events.clear();
        for ev in evs.iter() {
            if ev.arena != self.id {
                let m = format!("{:?} event for arena {} (by {}) observed during an operation of arena {}: addr {:#x} size {}", ev.kind, ev.arena, ev.by, self.id, ev.addr, ev.size);
                self.v("C20", m);
                continue;
            }
            self.step_events.push((ev.kind as u8, ev.size, ev.align));
            if std::env::var_os("VERIF_TRACE").is_some() {
                eprintln!("  op {} ({:?}): {:?} size {} align {} addr {:#x} (limit {:?}, cap {})", self.opi, kind, ev.kind, ev.size, ev.align, ev.addr, self.limit, self.last_cap);
            }
            match ev.kind {
                EvKind::Alloc => {
                    self.st(St::NewChunk);
                    if let Some(l) = self.limit {
                        let usable = ev.size.saturating_sub(self.k_meta);
                        let held = self.held_usable();
                        if held.saturating_add(usable) > l {
                            let m = format!("limit {l}: arena held {held} usable bytes and obtained a chunk of {} ({} usable) => {} > limit", ev.size, usable, held + usable);
                            if self.limit_predates_reset {
                                self.v("C06", format!("the limit set before reset is not enforced after it: {m}"));
                            }
                            self.v("C07", m);
                        }
                        self.st(St::LimitedChunkGranted);
                    }
                    if kind != OpKind::Alloc && kind != OpKind::Grow && kind != OpKind::Shrink && kind != OpKind::Ctor && kind != OpKind::Probe && kind != OpKind::HandOver && kind != OpKind::HandOverDrop {
                        let m = format!("arena obtained memory during {:?}", kind);
                        self.v("C08", m);
                    }
                    let refused_in_step = self.step_events.iter().any(|e| e.0 == EvKind::Refuse as u8);
                    if self.limit.is_none() && !refused_in_step && self.last_chunk_size > 0 && ev.size < self.last_chunk_size {
                        let m = format!("new chunk of {} bytes is smaller than the previous one ({}) although nothing was refused and no limit is set", ev.size, self.last_chunk_size);
                        self.v("C18", m);
                    }
                    // geometric growth: with no limit and nothing refused, the usable size of a new chunk is at least
                    // twice that of the chunk it succeeds
                    if self.limit.is_none() && !refused_in_step && self.last_chunk_size > self.k_meta && ev.size.saturating_sub(self.k_meta) + DOUBLING_SLACK < 2 * (self.last_chunk_size - self.k_meta) {
                        let m = format!("new chunk of {} bytes is less than double the previous one ({}) although nothing was refused and no limit is set", ev.size, self.last_chunk_size);
                        self.v("C18", m);
                    }
                    self.last_chunk_size = ev.size;
                    self.chunks.push(Block { base: ev.addr, size: ev.size, align: ev.align, arena: ev.arena, seq: ev.seq, live: true });
                }
                EvKind::Free => {
                    self.st(St::ChunkFreed);
                    if kind != OpKind::Reset && kind != OpKind::Drop && kind != OpKind::HandOverDrop {
                        let m = format!("chunk [{:#x}, +{}) was returned to the global allocator during {:?} (only reset and drop may do that)", ev.addr, ev.size, kind);
                        self.v("C03", m);
                    }
                    if ev.by != self.id {
                        let m = format!("chunk of arena {} freed while thread was working for {}", ev.arena, ev.by);
                        self.v("C03", m);
                    }
                    if let Some(i) = self.chunks.iter().position(|c| c.base == ev.addr) {
                        self.chunks.remove(i);
                    } else {
                        let m = format!("free of unknown chunk {:#x}", ev.addr);
                        self.v("C03", m);
                    }
                    // any shadow block inside a freed chunk must already be dead
                    let (lo, hi) = (ev.addr, ev.addr + ev.size);
                    if kind != OpKind::Reset && kind != OpKind::Drop && kind != OpKind::HandOverDrop {
                        if let Some(b) = self.blocks.iter().find(|b| b.size > 0 && b.ptr >= lo && b.ptr < hi) {
                            let m = format!("chunk freed while block #{} in it is still live", b.id);
                            self.v("C03", m);
                        }
                    }
                }
                EvKind::Refuse => {
                    self.st(St::Refusal);
                    self.no_limit_no_fault = false;
                }
                EvKind::DoubleFree => {
                    let m = format!("chunk {:#x} returned to the global allocator twice", ev.addr);
                    self.v("C03", m);
                }
                EvKind::LayoutMismatch => {
                    let m = format!("chunk {:#x} freed with layout (size {}, align {}) different from the one it was requested with", ev.addr, ev.size, ev.align);
                    self.v("C03", m);
                }
                EvKind::InteriorFree => {
                    let m = format!("free of address {:#x} strictly inside a chunk", ev.addr);
                    self.v("C03", m);
                }
                EvKind::SentinelFree => {
                    let m = format!("the static empty sentinel {:#x} was handed to the global allocator's dealloc", ev.addr);
                    self.v("C03", m);
                }
                EvKind::Runaway => {
                    let m = format!("more than {} refused requests absorbed inside one call (last size {}, align {}): the retry loop does not terminate", ledger::REFUSAL_BUDGET, ev.size, ev.align);
                    self.v("C09", m);
                }
            }
        }
        self.evbuf = evs;
    }

    /// Observe the arena through its public API and run the state oracles.
    pub fn observe(&mut self, kind: OpKind) {
        if self.bump.is_none() {
            return;
        }
        // chunk iteration (raw and safe) must agree and match the ledger
        let raw: Vec<(usize, usize)> = match self.call(|b| unsafe {
            let it = b.iter_allocated_chunks_raw();
            let _u = ledger::enter_user();
            it.map(|(p, l)| (p as usize, l)).collect::<Vec<_>>()
        }) {
            Ok(v) => v,
            Err(m) => {
                self.v("C10", format!("iter_allocated_chunks_raw panicked: {m}"));
                Vec::new()
            }
        };
        let safe: Vec<(usize, usize)> = match self.call_mut(|b| {
            let it = b.iter_allocated_chunks();
            let _u = ledger::enter_user();
            it.map(|s| (s.as_ptr() as usize, s.len())).collect::<Vec<_>>()
        }) {
            Ok(v) => v,
            Err(m) => {
                self.v("C10", format!("iter_allocated_chunks panicked: {m}"));
                Vec::new()
            }
        };
        if raw != safe {
            self.v("C10", format!("iter_allocated_chunks and iter_allocated_chunks_raw disagree: {:?} vs {:?}", safe, raw));
        }
        let n = self.chunks.len();
        if raw.len() != n {
            self.v("C10", format!("chunk iteration yields {} slices but the arena holds {} blocks from the global allocator", raw.len(), n));
        } else {
            for (i, &(p, l)) in raw.iter().enumerate() {
                let c = self.chunks[n - 1 - i];
                let end = c.base + c.size.saturating_sub(self.k_meta);
                if !(p >= c.base && p + l <= end) {
                    let m = format!("slice #{i} [{p:#x}, +{l}) is not inside the usable part [{:#x}, {:#x}) of the {}-th newest chunk", c.base, end, i);
                    self.v("C10", m);
                }
            }
        }
        // containment of live blocks in exactly one slice
        for b in self.blocks.iter() {
            if b.size == 0 {
                continue;
            }
            let cnt = raw.iter().filter(|&&(p, l)| b.ptr >= p && b.ptr + b.size <= p + l).count();
            if cnt != 1 {
                let m = format!("live block #{} [{:#x}, +{}) is contained in {} of the iterated slices", b.id, b.ptr, b.size, cnt);
                if self.viol.len() < 32 {
                    self.viol.push(Violation { prop: "C10", op: self.opi, msg: m });
                }
                break;
            }
        }
        if let Some(a) = self.opts.uniform {
            self.check_uniform_tiling(&raw, a);
        }
        // accounting
        let (ab, abm, cap) = self.call(|b| (b.allocated_bytes(), b.allocated_bytes_including_metadata(), b.chunk_capacity())).unwrap_or((0, 0, 0));
        let total = self.held_total();
        if abm != total {
            self.v("C08", format!("allocated_bytes_including_metadata() = {abm} but the arena holds {total} bytes in {n} blocks from the global allocator (after {:?})", kind));
        }
        let expect_ab = total - n * self.k_meta.min(if n > 0 { total / n } else { 0 });
        if ab != expect_ab {
            self.v("C08", format!("allocated_bytes() = {ab}, expected {expect_ab} = {total} held - {n} chunks x {} overhead (after {:?})", self.k_meta, kind));
        }
        self.last_ab = ab;
        self.last_abm = abm;
        self.last_cap = cap;
        // contents
        let mut bad: Option<(u32, usize, usize, bool)> = None;
        // a live block whose chunk the arena has already given back must not be touched by the harness either (quarantined
        // blocks are inaccessible): it is reported instead
        let mut orphan: Option<(u32, usize, usize)> = None;
        for b in self.blocks.iter() {
            if b.size > 0 && self.locate(b.ptr, b.size).is_none() {
                orphan = Some((b.id, b.ptr, b.size));
                break;
            }
        }
        if let Some((id, ptr, size)) = orphan {
            let m = format!("live block #{id} [{ptr:#x}, +{size}) no longer lies in memory the arena holds: its chunk was given back to the global allocator while the block was still live (after {:?})", kind);
            self.v("C03", m.clone());
            self.v("C01", m);
            let live: Vec<bool> = self.blocks.iter().map(|b| b.size == 0 || self.locate(b.ptr, b.size).is_some()).collect();
            let mut it = live.into_iter();
            self.blocks.retain(|_| it.next().unwrap_or(true));
        }
        for b in self.blocks.iter() {
            if let Some(j) = unsafe { check_pat(b.id, b.ptr as *const u8, b.size, false) } {
                bad = Some((b.id, j, b.size, b.kept));
                break;
            }
        }
        if let Some((id, j, size, kept)) = bad {
            self.v("C02", format!("live block #{id} (size {size}) changed at byte {j} during {:?}", kind));
            if kept {
                self.v("C11", format!("block #{id} kept by an initialiser changed at byte {j} during {:?}", kind));
            }
            // do not report the same corruption again on every later step
            self.blocks.retain(|b| b.id != id);
        }
        if let Some((_, msg)) = ledger::check_integrity(kind == OpKind::Reset || kind == OpKind::Drop) {
            let prop = if msg.starts_with("write into a chunk already") { "C03" } else { "C01" };
            self.v(prop, msg);
        }
        if M != self.call(|b| b.min_align()).unwrap_or(M) {
            self.v("C04", "min_align() differs from the configured MIN_ALIGN".to_string());
        }
        if self.limit != self.call(|b| b.allocation_limit()).unwrap_or(self.limit) {
            self.v("C06", "allocation_limit() differs from the last value set".to_string());
        }
    }

    /// C10 exact part: in a uniform history the slices are exactly the allocated objects, newest first.
    fn check_uniform_tiling(&mut self, raw: &[(usize, usize)], _a: usize) {
        for &(p, l) in raw.iter() {
            // blocks in this chunk, ascending address
            let mut inside: Vec<(usize, usize, u32)> = self
                .blocks
                .iter()
                .filter(|b| b.slot_size > 0 && b.slot >= p && b.slot < p + l.max(1))
                .map(|b| (b.slot, b.slot_size, b.id))
                .collect();
            inside.sort();
            let mut cur = p;
            let mut last_id = u32::MAX;
            for &(s, sz, id) in inside.iter() {
                if s != cur {
                    let m = format!("uniform history: slice [{p:#x}, +{l}) has {} bytes that are not an allocated object before block #{id}", s.wrapping_sub(cur));
                    self.v("C10", m);
                    return;
                }
                if id > last_id {
                    let m = format!("uniform history: block #{id} appears after older block #{last_id} (not newest first)");
                    self.v("C10", m);
                    return;
                }
                last_id = id;
                cur = s + sz;
            }
            if cur != p + l {
                let m = format!("uniform history: slice [{p:#x}, +{l}) ends with {} bytes that are not an allocated object", (p + l).wrapping_sub(cur));
                self.v("C10", m);
                return;
            }
        }
        // every non-zero block must be in some slice (checked by containment above)
    }

    pub fn push_trace(&mut self, outcome: u8, ptr: usize, len: usize) {
        if !self.opts.record_trace {
            return;
        }
        let (chunk, off) = if outcome != OUT_OK {
            (-3, 0)
        } else if len == 0 {
            match self.locate(ptr, 0) {
                Some((i, o)) => (i as i32, o),
                None => (-1, ptr % 16),
            }
        } else {
            match self.locate(ptr, len) {
                Some((i, o)) => (i as i32, o),
                None => (-2, 0),
            }
        };
        let ev = self.step_events.clone();
        self.trace.push(TraceItem { outcome, chunk, off, len, cap: self.last_cap, ab: self.last_ab, abm: self.last_abm, nchunks: self.chunks.len(), ev });
    }
}

pub fn round_up_checked(n: usize, d: usize) -> Option<usize> {
    n.checked_add(d - 1).map(|x| x & !(d - 1))
}
