//! C12 — second family: standard collections parameterised by the arena (allocator_api2's Vec and Box
//! with `&Bump<M>` as allocator) must behave exactly as with the global allocator.

use crate::arena_eng::*;
use crate::ledger::{self, enter_arena};
use crate::runner::*;
use crate::sim::*;
use allocator_api2::boxed::Box as ABox;
use allocator_api2::vec::Vec as AVec;
use bumpalo::Bump;
use proptest::prelude::*;
use proptest::strategy::BoxedStrategy;
use serde_json::{json, Value};
use std::alloc::Layout;
use std::panic::{catch_unwind, AssertUnwindSafe};

pub struct C12Engine {
    inner: ArenaEngine,
}
impl C12Engine {
    pub fn new() -> Self {
        C12Engine { inner: ArenaEngine::new("C12") }
    }
}

pub const DOPS: [&str; 18] = [
    "push", "pop", "insert", "remove", "extend_from_slice", "truncate", "reserve", "shrink_to_fit", "resize", "append", "split_off", "dedup", "retain",
    "drain", "clone", "native_alloc", "box_new_drop", "reserve_exact",
];

struct DiffOut {
    viol: Vec<String>,
    reallocs: u32,
    shrinks: u32,
    ops: u32,
}

trait Item: Clone + PartialEq + std::fmt::Debug + 'static {
    fn make(v: u32) -> Self;
}
impl Item for u8 {
    fn make(v: u32) -> Self {
        v as u8
    }
}
impl Item for u32 {
    fn make(v: u32) -> Self {
        v
    }
}
impl Item for u64 {
    fn make(v: u32) -> Self {
        v as u64 * 0x1_0000_0001
    }
}
impl Item for [u64; 3] {
    fn make(v: u32) -> Self {
        [v as u64, !(v as u64), 7]
    }
}
impl Item for u128 {
    fn make(v: u32) -> Self {
        (v as u128) << 64 | 5
    }
}

fn diff_program<const M: usize, T: Item>(bytes: &[u8]) -> DiffOut {
    let mut out = DiffOut { viol: vec![], reallocs: 0, shrinks: 0, ops: 0 };
    let bump: Bump<M> = {
        let _g = enter_arena(1);
        Bump::with_min_align()
    };
    {
        let b = &bump;
        let mut s: [AVec<T, &Bump<M>>; 2] = [AVec::new_in(b), AVec::new_in(b)];
        let mut t: [Vec<T>; 2] = [Vec::new(), Vec::new()];
        let mut canaries: Vec<(usize, usize, u32)> = vec![];
        let mut cid = 500u32;
        for ch in bytes.chunks(4) {
            let g = |i: usize| ch.get(i).cloned().unwrap_or(0);
            let (code, w, a, c) = (g(0) % DOPS.len() as u8, (g(1) & 1) as usize, g(2), g(3));
            out.ops += 1;
            let len = t[w].len();
            let idx = |x: u8| (x as usize * (len + 1)) >> 8;
            let cap0 = s[w].capacity();
            let r = {
                let _g = enter_arena(1);
                catch_unwind(AssertUnwindSafe(|| match code {
                    0 => s[w].push(T::make(c as u32)),
                    1 => {
                        s[w].pop();
                    }
                    2 => s[w].insert(idx(a), T::make(c as u32)),
                    3 => {
                        if len > 0 {
                            s[w].remove(idx(a).min(len - 1));
                        }
                    }
                    4 => {
                        let src: Vec<T> = {
                            let _u = ledger::enter_user();
                            (0..(a % 40) as u32).map(|j| T::make(j + c as u32)).collect()
                        };
                        s[w].extend_from_slice(&src)
                    }
                    5 => s[w].truncate(idx(a)),
                    6 => s[w].reserve((a as usize) % 100),
                    7 => s[w].shrink_to_fit(),
                    8 => s[w].resize((a as usize) % (len + 30), T::make(c as u32)),
                    9 => {
                        let (x, y) = s.split_at_mut(1);
                        if w == 0 {
                            x[0].append(&mut y[0])
                        } else {
                            y[0].append(&mut x[0])
                        }
                    }
                    10 => {
                        let tail = s[w].split_off(idx(a));
                        let o = 1 - w;
                        s[o] = tail;
                    }
                    11 => s[w].dedup(),
                    12 => {
                        let m = T::make(c as u32);
                        s[w].retain(|x| *x != m)
                    }
                    13 => {
                        let lo = idx(a);
                        let hi = lo + (((c as usize) * (len - lo + 1)) >> 8);
                        s[w].drain(lo..hi);
                    }
                    14 => {
                        let cl = s[w].clone();
                        let o = 1 - w;
                        s[o] = cl;
                    }
                    17 => s[w].reserve_exact((a as usize) % 60),
                    _ => {}
                }))
            };
            // the same on std
            let rt = catch_unwind(AssertUnwindSafe(|| match code {
                0 => t[w].push(T::make(c as u32)),
                1 => {
                    t[w].pop();
                }
                2 => t[w].insert(idx(a), T::make(c as u32)),
                3 => {
                    if len > 0 {
                        t[w].remove(idx(a).min(len - 1));
                    }
                }
                4 => {
                    let src: Vec<T> = (0..(a % 40) as u32).map(|j| T::make(j + c as u32)).collect();
                    t[w].extend_from_slice(&src)
                }
                5 => t[w].truncate(idx(a)),
                6 => t[w].reserve((a as usize) % 100),
                7 => t[w].shrink_to_fit(),
                8 => t[w].resize((a as usize) % (len + 30), T::make(c as u32)),
                9 => {
                    let (x, y) = t.split_at_mut(1);
                    if w == 0 {
                        x[0].append(&mut y[0])
                    } else {
                        y[0].append(&mut x[0])
                    }
                }
                10 => {
                    let tail = t[w].split_off(idx(a));
                    t[1 - w] = tail;
                }
                11 => t[w].dedup(),
                12 => {
                    let m = T::make(c as u32);
                    t[w].retain(|x| *x != m)
                }
                13 => {
                    let lo = idx(a);
                    let hi = lo + (((c as usize) * (len - lo + 1)) >> 8);
                    t[w].drain(lo..hi);
                }
                14 => {
                    t[1 - w] = t[w].clone();
                }
                17 => t[w].reserve_exact((a as usize) % 60),
                _ => {}
            }));
            if r.is_err() != rt.is_err() {
                out.viol.push(format!("{} on Vec<_, &Bump<{M}>> {} where Vec<_, Global> {}", DOPS[code as usize], if r.is_err() { "panicked" } else { "returned" }, if rt.is_err() { "panicked" } else { "returned" }));
            }
            match code {
                15 => {
                    // a native arena allocation between collection operations
                    let n = 1 + (a as usize % 90);
                    let al = 1usize << (c % 6);
                    let p = {
                        let _g = enter_arena(1);
                        b.alloc_layout(Layout::from_size_align(n, al).unwrap()).as_ptr() as usize
                    };
                    unsafe { crate::types::write_pat(cid, p as *mut u8, n) };
                    canaries.push((p, n, cid));
                    cid += 1;
                }
                16 => {
                    let v = T::make(c as u32);
                    let bx = {
                        let _g = enter_arena(1);
                        ABox::new_in(v.clone(), b)
                    };
                    if *bx != v {
                        out.viol.push("Box<_, &Bump> holds a different value from the one it was given".into());
                    }
                    if a & 1 == 0 {
                        let _g = enter_arena(1);
                        drop(bx);
                    } else {
                        let inner = ABox::into_inner(bx);
                        if inner != v {
                            out.viol.push("Box::into_inner returned a different value".into());
                        }
                    }
                }
                _ => {}
            }
            for k in 0..2 {
                if s[k].as_slice() != t[k].as_slice() {
                    out.viol.push(format!("after {}: Vec<_, &Bump<{M}>> #{k} holds {:?} (len {}), Vec<_, Global> holds {:?} (len {})", DOPS[code as usize], &s[k].as_slice()[..s[k].len().min(12)], s[k].len(), &t[k][..t[k].len().min(12)], t[k].len()));
                    break;
                }
                if s[k].capacity() < s[k].len() {
                    out.viol.push(format!("capacity {} < len {}", s[k].capacity(), s[k].len()));
                }
                let p = s[k].as_ptr() as usize;
                if s[k].capacity() > 0 && std::mem::size_of::<T>() > 0 && p % std::mem::align_of::<T>().max(M) != 0 {
                    out.viol.push(format!("buffer {p:#x} of Vec<_, &Bump<{M}>> is not aligned to max(align_of T, MIN_ALIGN)"));
                }
            }
            for (p, n, id) in canaries.iter() {
                if let Some(j) = unsafe { crate::types::check_pat(*id, *p as *const u8, *n, true) } {
                    out.viol.push(format!("a native block of {n} bytes allocated between collection operations changed at byte {j} after {}", DOPS[code as usize]));
                }
            }
            if let Some((_, m)) = ledger::check_integrity(false) {
                out.viol.push(m);
            }
            if s[w].capacity() > cap0 && cap0 > 0 {
                out.reallocs += 1;
            }
            if s[w].capacity() < cap0 {
                out.shrinks += 1;
            }
            if !out.viol.is_empty() {
                break;
            }
        }
        let _g = enter_arena(1);
        drop(s);
    }
    {
        let _g = enter_arena(1);
        drop(bump);
    }
    out
}

impl Engine for C12Engine {
    fn prop(&self) -> &'static str {
        "C12"
    }
    fn strategy(&self, tier: Tier) -> BoxedStrategy<Vec<u8>> {
        let hist = self.inner.strategy(tier).prop_map(|mut v| {
            v.insert(0, 0);
            v
        });
        let prog = (0u8..3, 0u8..5, proptest::collection::vec((0u8..DOPS.len() as u8, any::<u8>(), any::<u8>(), any::<u8>()), 1..60)).prop_map(|(m, e, ops)| {
            let mut v = vec![1, m, e];
            for (c, w, a, x) in ops {
                v.extend_from_slice(&[c, w, a, x]);
            }
            v
        });
        prop_oneof![3 => hist, 1 => prog].boxed()
    }
    fn run(&self, bytes: &[u8]) -> CaseOut {
        if bytes.first().cloned().unwrap_or(0) == 0 {
            let mut o = self.inner.run(&bytes[1..]);
            o.hash = fnv(bytes);
            o.stats.extend_from_slice(&[0, 0, 0]);
            return o;
        }
        let _ = k_meta();
        ledger::begin_case(11);
        let body = bytes.get(3..).unwrap_or(&[]);
        let e = bytes.get(2).cloned().unwrap_or(0) % 5;
        macro_rules! go {
            ($m:expr) => {
                match e {
                    0 => diff_program::<$m, u8>(body),
                    1 => diff_program::<$m, u32>(body),
                    2 => diff_program::<$m, u64>(body),
                    3 => diff_program::<$m, [u64; 3]>(body),
                    _ => diff_program::<$m, u128>(body),
                }
            };
        }
        let r = match bytes.get(1).cloned().unwrap_or(0) % 3 {
            0 => go!(1),
            1 => go!(8),
            _ => go!(16),
        };
        ledger::end_case();
        let mut stats = vec![0u32; NST];
        stats.extend_from_slice(&[1, r.reallocs, r.shrinks]);
        CaseOut { viol: r.viol, nontrivial: r.reallocs >= 2 && r.ops >= 6, hash: fnv(bytes), stats, ..Default::default() }
    }
    fn describe(&self, bytes: &[u8]) -> Value {
        if bytes.first().cloned().unwrap_or(0) == 0 {
            return self.inner.describe(&bytes[1..]);
        }
        json!({"family": "allocator_api2::vec::Vec / boxed::Box with &Bump<M> as allocator vs the global allocator",
               "min_align": ([1, 8, 16][(bytes.get(1).cloned().unwrap_or(0) % 3) as usize]),
               "element": (["u8", "u32", "u64", "[u64;3]", "u128"][(bytes.get(2).cloned().unwrap_or(0) % 5) as usize]),
               "ops": bytes.get(3..).unwrap_or(&[]).chunks(4).map(|c| format!("{}(vec {}, {}, {})", DOPS[(c[0] % DOPS.len() as u8) as usize], c.get(1).cloned().unwrap_or(0) & 1, c.get(2).cloned().unwrap_or(0), c.get(3).cloned().unwrap_or(0))).collect::<Vec<_>>()})
    }
    fn stat_names(&self) -> Vec<&'static str> {
        let mut n = ST_NAMES.to_vec();
        n.extend_from_slice(&["collection_programs", "collection_growths", "collection_shrinks"]);
        n
    }
    fn cases(&self, tier: Tier) -> u32 {
        self.inner.cases(tier)
    }
    fn rule(&self) -> String {
        format!("{} Second family (one case in four): programs over two allocator_api2::vec::Vec<T, &Bump<M>> (T of 1..24 bytes, M in 1/8/16) and allocator_api2::boxed::Box<T, &Bump<M>> interleaved with native arena allocations, every operation mirrored on std's Vec: same panics, same contents after every step, buffers aligned, native neighbour blocks and guard bands intact; non-trivial for that family = at least 2 buffer growths in a program of at least 6 operations.", rule_text("C12"))
    }
    fn fuzz(&self) -> Option<FuzzSpec> {
        Some(FuzzSpec { target: "fz_arena", max_len: 8 + 4 * 80, target_prefix: vec![], engine_prefix: vec![0] })
    }
    fn assumptions(&self) -> Vec<String> {
        self.inner.assumptions()
    }
}
