//! C18 — requested capacity is honoured and growth is geometric.
//! Three generated families: (0) single-arena histories with capacity-honesty probes (arena_eng),
//! (1) Vec/String growth workloads, (2) arena capacity-partition and volume workloads.

use crate::arena_eng::*;
use crate::ledger::{self, enter_arena, EvKind};
use crate::runner::*;
use crate::sim::*;
use bumpalo::collections::{String as BString, Vec as BVec};
use bumpalo::Bump;
use proptest::prelude::*;
use proptest::strategy::BoxedStrategy;
use serde_json::{json, Value};
use std::alloc::Layout;

pub struct C18Engine {
    inner: ArenaEngine,
}
impl C18Engine {
    pub fn new() -> Self {
        C18Engine { inner: ArenaEngine::new("C18") }
    }
}

fn log2_ceil(x: usize) -> usize {
    (usize::BITS - x.max(1).leading_zeros()) as usize
}

// ---------------------------------------------------------------------------------------------
// family 1: Vec / String growth

struct VecOut {
    viol: Vec<String>,
    reallocs: u32,
    ops: u32,
    max_len: usize,
}

fn vec_workload<T: Copy + Default + 'static>(bytes: &[u8], init_cap: Option<usize>) -> VecOut {
    let mut out = VecOut { viol: vec![], reallocs: 0, ops: 0, max_len: 0 };
    let bump = {
        let _g = enter_arena(1);
        Bump::new()
    };
    {
        let _g = enter_arena(1);
        let size = std::mem::size_of::<T>();
        let mut v: BVec<T> = match init_cap {
            Some(c) => BVec::with_capacity_in(c, &bump),
            None => BVec::new_in(&bump),
        };
        // amortised growth only: reserve_exact / shrink_to_fit are outside the property
        let mut first_cap = 0usize;
        let mut high_water = init_cap.unwrap_or(0); // largest len + additional ever demanded
        if let Some(c) = init_cap {
            // with_capacity_in(c): c elements go in without moving
            let (cap, p) = (v.capacity(), v.as_ptr() as usize);
            if cap < c {
                let _u = ledger::enter_user();
                out.viol.push(format!("Vec<{size}-byte>::with_capacity_in({c}) has capacity {cap}"));
            }
            for _ in 0..c {
                v.push(T::default());
            }
            if v.capacity() != cap || (c > 0 && v.as_ptr() as usize != p) {
                let _u = ledger::enter_user();
                out.viol.push(format!("Vec<{size}-byte>::with_capacity_in({c}): pushing {c} elements moved the buffer (capacity {cap} -> {})", v.capacity()));
            }
            first_cap = cap;
        }
        let src: Vec<T> = {
            let _u = ledger::enter_user();
            vec![T::default(); 4096]
        };
        for ch in bytes.chunks(2) {
            let (k, n) = (ch[0], ch.get(1).cloned().unwrap_or(0) as usize);
            out.ops += 1;
            let cap0 = v.capacity();
            let ptr0 = v.as_ptr() as usize;
            let len0 = v.len();
            let mut demanded = len0;
            let mut within_reserved = false;
            match k % 12 {
                0 | 1 => {
                    // a run of pushes
                    let cnt = 1 + n * 3;
                    for _ in 0..cnt {
                        let (c, p, l) = (v.capacity(), v.as_ptr() as usize, v.len());
                        v.push(T::default());
                        if l < c && (v.as_ptr() as usize != p || v.capacity() != c) {
                            let _u = ledger::enter_user();
                            out.viol.push(format!("Vec<{size}-byte>: push with len {l} < capacity {c} moved the buffer or changed the capacity to {}", v.capacity()));
                        }
                        if first_cap == 0 && v.capacity() != 0 {
                            first_cap = v.capacity();
                        }
                        if v.capacity() != c && c != 0 {
                            out.reallocs += 1;
                            if v.capacity() < 2 * c {
                                let _u = ledger::enter_user();
                                out.viol.push(format!("Vec<{size}-byte>: push grew the capacity from {c} to only {} (less than double)", v.capacity()));
                            }
                        }
                    }
                    demanded = v.len();
                }
                2 | 3 => {
                    let cnt = (n * 16 + 1).min(4096);
                    demanded = len0 + cnt;
                    v.extend_from_slice_copy(&src[..cnt]);
                }
                4 => {
                    let cnt = (n + 1).min(4096);
                    demanded = len0 + cnt;
                    v.extend(src[..cnt].iter().cloned());
                }
                5 => {
                    let cnt = n * 8;
                    demanded = len0 + cnt;
                    v.reserve(cnt);
                    if v.capacity() < len0 + cnt {
                        let _u = ledger::enter_user();
                        out.viol.push(format!("reserve({cnt}) on len {len0} left capacity {}", v.capacity()));
                    }
                    // the reserved room must be usable without moving
                    let (c, p) = (v.capacity(), v.as_ptr() as usize);
                    // ... whichever way the elements arrive
                    let fill = cnt.min(512);
                    let how = (k / 12) % 8;
                    let how_name = ["pushes", "elements through extend_from_slice_copy", "elements through extend_from_slices_copy (three slices)", "elements through extend_from_slice", "elements through extend(exact iterator)", "elements through resize", "elements through insert at the end", "elements through extend_from_slices_copy (one slice and two empty ones)"][how as usize];
                    match how {
                        0 => {
                            for _ in 0..fill {
                                v.push(T::default());
                            }
                        }
                        1 => v.extend_from_slice_copy(&src[..fill]),
                        2 => {
                            let (a, rest) = src[..fill].split_at(fill / 3);
                            let (b, d) = rest.split_at(rest.len() / 2);
                            v.extend_from_slices_copy(&[a, b, d]);
                        }
                        3 => v.extend_from_slice(&src[..fill]),
                        4 => v.extend(src[..fill].iter().cloned()),
                        5 => v.resize(len0 + fill, T::default()),
                        6 => {
                            for _ in 0..fill {
                                let at = v.len();
                                v.insert(at, T::default());
                            }
                        }
                        _ => v.extend_from_slices_copy(&[&src[..0], &src[..fill], &src[..0]]),
                    }
                    if v.len() != len0 + fill {
                        let _u = ledger::enter_user();
                        out.viol.push(format!("Vec<{size}-byte>: {fill} {how_name} on len {len0} left len {}", v.len()));
                    }
                    if v.as_ptr() as usize != p || v.capacity() != c {
                        let _u = ledger::enter_user();
                        out.viol.push(format!("Vec<{size}-byte>: after reserve({cnt}) on len {len0} the next {fill} {how_name} moved the buffer (capacity {c} -> {})", v.capacity()));
                    }
                    within_reserved = true;
                    demanded = demanded.max(v.len());
                }
                10 => {
                    // reserved room must also be honoured by extend() when the iterator's size hint is loose
                    // (upper bound far above what it really yields)
                    let cnt = n % 48 + 1;
                    demanded = len0 + cnt;
                    v.reserve(cnt);
                    let (c, p) = (v.capacity(), v.as_ptr() as usize);
                    v.extend((0..cnt * 40).filter(|x| x % 40 == 0).map(|_| T::default()));
                    if v.len() != len0 + cnt {
                        let _u = ledger::enter_user();
                        out.viol.push(format!("extend with a filtered iterator appended {} elements instead of {cnt}", v.len() - len0));
                    }
                    if v.as_ptr() as usize != p || v.capacity() != c {
                        let _u = ledger::enter_user();
                        out.viol.push(format!("Vec<{size}-byte>: after reserve({cnt}), extend() with {cnt} items from an iterator whose size hint is (0, Some({})) moved the buffer (capacity {c} -> {})", cnt * 40, v.capacity()));
                    }
                }
                11 => {
                    // a collection built from a loosely hinted iterator must not be sized by the upper bound
                    let cnt = n % 16 + 1;
                    let w: BVec<T> = BVec::from_iter_in((0..cnt * 5000).filter(|x| x % 5000 == 0).map(|_| T::default()), &bump);
                    if w.len() != cnt || w.capacity() > 4 * cnt + 16 {
                        let _u = ledger::enter_user();
                        out.viol.push(format!("Vec<{size}-byte>::from_iter_in of {cnt} items (size hint upper bound {}) has len {} and capacity {}", cnt * 5000, w.len(), w.capacity()));
                    }
                    drop(w);
                }
                6 => v.clear(),
                7 => v.truncate(len0 / 2),
                8 => {
                    for _ in 0..n.min(len0) {
                        v.pop();
                    }
                }
                _ => {
                    // something else grows in the arena in between
                    bump.alloc_layout(Layout::from_size_align(1 + n, 1).unwrap());
                }
            }
            let _ = within_reserved;
            high_water = high_water.max(demanded);
            out.max_len = out.max_len.max(v.len());
            let cap1 = v.capacity();
            if cap1 != cap0 && !matches!(k % 12, 0 | 1) {
                if cap0 != 0 {
                    out.reallocs += 1;
                }
                // geometric growth: a bulk operation that outgrows the buffer at least doubles it
                if cap0 != 0 && cap1 < 2 * cap0 && cap1 > cap0 {
                    let _u = ledger::enter_user();
                    out.viol.push(format!("Vec<{size}-byte>: growing from capacity {cap0} (len {len0}) gave capacity {cap1}, less than double"));
                }
                if cap1 < cap0 {
                    let _u = ledger::enter_user();
                    out.viol.push(format!("Vec<{size}-byte>: capacity shrank from {cap0} to {cap1} without shrink_to_fit"));
                }
            }
            if cap1 == cap0 && ptr0 != v.as_ptr() as usize && cap0 != 0 && size > 0 {
                let _u = ledger::enter_user();
                out.viol.push(format!("Vec<{size}-byte>: the buffer moved although the capacity {cap0} did not change"));
            }
            if first_cap == 0 && cap1 != 0 {
                first_cap = cap1;
            }
        }
        // logarithmic number of reallocations, bounded over-allocation
        let final_cap = v.capacity();
        if first_cap > 0 {
            let bound = log2_ceil(final_cap / first_cap.max(1) + 1) as u32 + 3;
            if out.reallocs > bound {
                let _u = ledger::enter_user();
                out.viol.push(format!("Vec<{size}-byte>: {} reallocations while the capacity went from {first_cap} to {final_cap} (bound {bound}: each growth must at least double)", out.reallocs));
            }
            if final_cap > 4 * high_water.max(4) + 16 {
                let _u = ledger::enter_user();
                out.viol.push(format!("Vec<{size}-byte>: capacity {final_cap} although at most {high_water} elements were ever needed"));
            }
        }
        drop(v);
    }
    {
        let _g = enter_arena(1);
        drop(bump);
    }
    out
}

fn string_workload(bytes: &[u8], init_cap: Option<usize>) -> VecOut {
    let mut out = VecOut { viol: vec![], reallocs: 0, ops: 0, max_len: 0 };
    let bump = {
        let _g = enter_arena(1);
        Bump::new()
    };
    {
        let _g = enter_arena(1);
        let mut s = match init_cap {
            Some(c) => BString::with_capacity_in(c, &bump),
            None => BString::new_in(&bump),
        };
        let filler = {
            let _u = ledger::enter_user();
            "abcdefghijklmnopqrstuvwxyz012345".repeat(64)
        };
        let mut first_cap = 0;
        if let Some(c) = init_cap {
            // with_capacity_in(c): c bytes of text go in without moving, whatever the width of the chars
            let (cap, p) = (s.capacity(), s.as_ptr() as usize);
            let ch = ['x', 'é', '€', '😀'][bytes.first().cloned().unwrap_or(0) as usize % 4];
            if cap < c {
                let _u = ledger::enter_user();
                out.viol.push(format!("String::with_capacity_in({c}) has capacity {cap}"));
            }
            for _ in 0..c / ch.len_utf8() {
                s.push(ch);
            }
            for _ in 0..c % ch.len_utf8() {
                s.push('x');
            }
            if s.capacity() != cap || (c > 0 && s.as_ptr() as usize != p) {
                let _u = ledger::enter_user();
                out.viol.push(format!("String::with_capacity_in({c}): pushing {c} bytes of {ch:?} moved the buffer (capacity {cap} -> {})", s.capacity()));
            }
            first_cap = cap;
        }
        for ch in bytes.chunks(2) {
            let (k, n) = (ch[0], ch.get(1).cloned().unwrap_or(0) as usize);
            out.ops += 1;
            let mut inner_reallocs = 0u32;
            let (cap0, len0, ptr0) = (s.capacity(), s.len(), s.as_ptr() as usize);
            match k % 6 {
                0 => {
                    // chars of every encoded width: a push that fits the capacity must stay in place
                    let ch = ['x', 'é', '€', '😀'][(k as usize / 6) % 4];
                    for _ in 0..(1 + n * 2) {
                        let (c, l, p) = (s.capacity(), s.len(), s.as_ptr() as usize);
                        s.push(ch);
                        if first_cap == 0 && s.capacity() != 0 {
                            first_cap = s.capacity();
                        }
                        if c != 0 && s.capacity() != c {
                            inner_reallocs += 1;
                        }
                        if c != 0 && l + ch.len_utf8() <= c && (s.capacity() != c || s.as_ptr() as usize != p) {
                            let _u = ledger::enter_user();
                            out.viol.push(format!("String: push({ch:?}) with len {l} + {} <= capacity {c} moved the buffer or changed the capacity to {}", ch.len_utf8(), s.capacity()));
                        }
                    }
                }
                1 | 2 => s.push_str(&filler[..(n * 8).min(filler.len())]),
                3 => {
                    let cnt = n * 4;
                    s.reserve(cnt);
                    let (c, p) = (s.capacity(), s.as_ptr() as usize);
                    if c < len0 + cnt {
                        let _u = ledger::enter_user();
                        out.viol.push(format!("String::reserve({cnt}) on len {len0} left capacity {c}"));
                    }
                    // fill exactly the reserved bytes: as one push_str, char by char (every width), or through Extend<char>
                    let ch = ['x', 'é', '€', '😀'][(k as usize / 6) % 4];
                    let w = ch.len_utf8();
                    match (k as usize / 24) % 3 {
                        0 => s.push_str(&filler[..cnt.min(filler.len())]),
                        1 => {
                            for _ in 0..cnt / w {
                                s.push(ch);
                            }
                            for _ in 0..cnt % w {
                                s.push('x');
                            }
                        }
                        _ => {
                            s.extend(std::iter::repeat(ch).take(cnt / w));
                            s.extend(std::iter::repeat(&'x').take(cnt % w));
                        }
                    }
                    if cnt <= filler.len() && (s.as_ptr() as usize != p || s.capacity() != c) {
                        let _u = ledger::enter_user();
                        out.viol.push(format!("String: after reserve({cnt}) adding {cnt} bytes ({} of width {w}) moved the buffer", ["push_str", "push", "extend"][(k as usize / 24) % 3]));
                    }
                }
                4 => s.clear(),
                _ => {
                    let mut t = len0 / 2;
                    while !s.is_char_boundary(t) {
                        t -= 1;
                    }
                    s.truncate(t)
                }
            }
            let cap1 = s.capacity();
            out.reallocs += inner_reallocs;
            if cap1 != cap0 && cap0 != 0 && inner_reallocs == 0 {
                out.reallocs += 1;
                if cap1 > cap0 && cap1 < 2 * cap0 && k % 6 != 0 {
                    let _u = ledger::enter_user();
                    out.viol.push(format!("String: growing from capacity {cap0} (len {len0}) gave capacity {cap1}, less than double"));
                }
            }
            if cap1 == cap0 && cap0 != 0 && ptr0 != s.as_ptr() as usize {
                let _u = ledger::enter_user();
                out.viol.push("String: the buffer moved although the capacity did not change".into());
            }
            if first_cap == 0 && cap1 != 0 {
                first_cap = cap1;
            }
            out.max_len = out.max_len.max(s.len());
        }
        if first_cap > 0 {
            let bound = log2_ceil(s.capacity() / first_cap + 1) as u32 + 3;
            if out.reallocs > bound {
                let _u = ledger::enter_user();
                out.viol.push(format!("String: {} reallocations while the capacity went from {first_cap} to {} (bound {bound})", out.reallocs, s.capacity()));
            }
        }
        drop(s);
    }
    {
        let _g = enter_arena(1);
        drop(bump);
    }
    out
}

// ---------------------------------------------------------------------------------------------
// family 2: arena capacity partition and volume workloads

struct ArenaOut {
    viol: Vec<String>,
    chunks: u32,
    held: usize,
    partition_bytes: usize,
}

fn arena_workload<const M: usize>(bytes: &[u8], thorough: bool) -> ArenaOut {
    let mut out = ArenaOut { viol: vec![], chunks: 0, held: 0, partition_bytes: 0 };
    let g = |i: usize| bytes.get(i).cloned().unwrap_or(0);
    let cap_req = match g(1) % 4 {
        0 => crate::ops::map_size(g(2), g(3)).min(1 << 22),
        1 => (g(2) as usize) << (g(3) % 14),
        2 => 1 + g(2) as usize,
        _ => ((g(2) as usize) << 8 | g(3) as usize) * 64,
    };
    let mut evs = vec![];
    let bump = {
        let _g = enter_arena(1);
        Bump::<M>::with_min_align_and_capacity(cap_req)
    };
    ledger::take_events(&mut evs);
    // the chunk the constructor obtained (none for capacity 0): growth is measured against it as well
    let ctor_chunk = evs.iter().filter(|e| e.kind == EvKind::Alloc).map(|e| e.size).last().unwrap_or(0);
    let cap = bump.chunk_capacity();
    if cap < cap_req {
        out.viol.push(format!("Bump<{M}>::with_capacity({cap_req}) reports chunk_capacity {cap}"));
    }
    // partition of round_down(cap_req, M) into requests whose size is a multiple of M, align <= M
    let mut left = cap_req / M * M;
    let mut i = 4;
    let mut occupied = 0usize;
    while left > 0 {
        let unit = ((g(i) as usize % 64) + 1) * M;
        let mul = if g(i + 1) & 3 == 0 { 1 + (g(i + 1) as usize >> 2) } else { 1 };
        let size = (unit * mul).min(left);
        let align = (1usize << (g(i + 2) % 5)).min(M);
        i += 3;
        if i > 60 && left > 4096 {
            // finish the rest in one go
        }
        let size = if i > 90 { left } else { size };
        let l = Layout::from_size_align(size, align).unwrap();
        let r = {
            let _g = enter_arena(1);
            bump.try_alloc_layout(l)
        };
        ledger::take_events(&mut evs);
        if r.is_err() || !evs.is_empty() {
            out.viol.push(format!(
                "Bump<{M}>::with_capacity({cap_req}): after serving {} of {} bytes, a request of (size {size}, align {align}) {}",
                cap_req / M * M - left,
                cap_req / M * M,
                if r.is_err() { "failed".to_string() } else { format!("made the arena ask the global allocator for memory ({} events)", evs.len()) }
            ));
            break;
        }
        left -= size;
        occupied += size;
        out.partition_bytes += size;
    }
    // volume workload: keep allocating; chunk count must stay logarithmic in the bytes held and the
    // memory held within a constant factor of what the requests occupy
    let total_target: usize = if thorough { 1usize << (10 + (g(100) % 17)) } else { 1usize << (10 + (g(100) % 13)) };
    let dist = g(101) % 4;
    let mut k = 102;
    let mut last_chunk = ctor_chunk;
    let mut volume = 0usize;
    while volume < total_target {
        let x = g(k % bytes.len().max(1)) as usize;
        k += 1;
        let size = match dist {
            0 => 1 + x % 64,
            1 => 1 + x * 16,
            2 => 1 + (x << (x % 9)),
            _ => {
                if x % 16 == 0 {
                    4096 + x * 256
                } else {
                    8 + x % 200
                }
            }
        };
        let align = (1usize << (x % 5)).min(16);
        let l = Layout::from_size_align(size, align).unwrap();
        {
            let _g = enter_arena(1);
            let p = bump.alloc_layout(l);
            let _ = p;
        }
        ledger::take_events(&mut evs);
        for e in evs.iter() {
            if e.kind == EvKind::Alloc {
                out.chunks += 1;
                if e.size < last_chunk {
                    out.viol.push(format!("Bump<{M}>: new chunk of {} bytes is smaller than the previous one ({last_chunk}) although nothing was refused", e.size));
                }
                let km = k_meta();
                let refused = evs.iter().any(|x| x.kind == EvKind::Refuse);
                if !refused && last_chunk > km && e.size.saturating_sub(km) + crate::sim::DOUBLING_SLACK < 2 * (last_chunk - km) {
                    out.viol.push(format!("Bump<{M}>: new chunk of {} bytes is less than double the previous one ({last_chunk}) although nothing was refused and no limit is set", e.size));
                }
                last_chunk = e.size;
            }
        }
        volume += size;
        occupied += round_up(size, align.max(M));
    }
    let mut blocks = vec![];
    ledger::blocks(1, &mut blocks);
    let held: usize = blocks.iter().filter(|b| b.live).map(|b| b.size).sum();
    let nblocks = blocks.iter().filter(|b| b.live).count();
    out.held = held;
    let bound = 2 * log2_ceil(held / 256 + 1) + 4;
    if nblocks > bound {
        out.viol.push(format!("Bump<{M}>: {nblocks} chunks for {held} bytes held ({volume} bytes requested): more than 2*log2(held/256)+4 = {bound}, growth is not geometric"));
    }
    if held > 8 * occupied + (16 << 10) + 2 * cap {
        out.viol.push(format!("Bump<{M}>: holds {held} bytes for requests occupying {occupied} bytes (capacity asked {cap_req})"));
    }
    {
        let _g = enter_arena(1);
        drop(bump);
    }
    out
}


// ---------------------------------------------------------------------------------------------
// family 4: "doubling while the limit permits". The same request sequence is served by an arena without a limit and by
// one with a limit placed on, or a few bytes around, the total the first one holds after its j-th chunk. Whenever the
// chunk the unlimited arena chose fits under the limit (bytes held for allocation + the chunk's bytes for allocation
// <= limit), the limited arena must obtain a chunk at least as large at the same point. Nothing is demanded about
// chunks the limit does not permit. The oracle uses the ledger's sizes only (usable = block size - measured overhead).

struct LimitOut {
    viol: Vec<String>,
    chunks: u32,
    compared: u32,
    boundary: bool,
}

fn limit_twin<const M: usize>(bytes: &[u8]) -> LimitOut {
    let mut out = LimitOut { viol: vec![], chunks: 0, compared: 0, boundary: false };
    let g = |i: usize| bytes.get(i).cloned().unwrap_or(0);
    let km = k_meta();
    let cap_req: usize = match g(1) % 4 {
        0 | 1 => 0,
        2 => 1 + g(2) as usize * 8,
        _ => crate::ops::map_size(g(2), 0).min(1 << 16),
    };
    let dist = g(3) % 4;
    let nops = 20 + (g(4) as usize % 180);
    let req = |k: usize| -> Layout {
        let x = g(8 + k % 120) as usize;
        let y = g(8 + (k * 7 + 3) % 120) as usize;
        let size = match dist {
            0 => 1 + x % 64,
            1 => 1 + x * 8,
            2 => 1 + (x << (y % 6)),
            _ => {
                if x % 16 == 0 {
                    1500 + y * 40
                } else {
                    8 + x % 200
                }
            }
        };
        Layout::from_size_align(size, (1usize << (y % 5)).min(16)).unwrap()
    };
    // phase A: no limit
    let mut evs = vec![];
    let mut acq: Vec<(usize, usize, usize)> = vec![]; // (op index, usable bytes held before, usable bytes of the new chunk); op index 0 = constructor
    let mut held = 0usize;
    let a = {
        let _g = enter_arena(1);
        Bump::<M>::with_min_align_and_capacity(cap_req)
    };
    ledger::take_events_for(1, &mut evs);
    for e in evs.iter().filter(|e| e.kind == EvKind::Alloc) {
        acq.push((0, held, e.size - km));
        held += e.size - km;
    }
    for k in 0..nops {
        let l = req(k);
        {
            let _g = enter_arena(1);
            a.alloc_layout(l);
        }
        ledger::take_events_for(1, &mut evs);
        for e in evs.iter().filter(|e| e.kind == EvKind::Alloc) {
            acq.push((k + 1, held, e.size - km));
            held += e.size - km;
        }
    }
    {
        let _g = enter_arena(1);
        drop(a);
    }
    out.chunks = acq.len() as u32;
    if acq.is_empty() {
        return out;
    }
    // the limit: total held after chunk j, moved by a small delta
    let j = (g(5) as usize * acq.len()) >> 8;
    let s_j = acq[j].1 + acq[j].2;
    const DELTAS: [i64; 20] = [0, 1, 15, 16, 17, 31, 47, 48, 49, 63, 64, 95, 96, 97, 143, 144, 1000, -1, -16, -48];
    let d = DELTAS[g(6) as usize % DELTAS.len()];
    let limit = if d >= 0 { s_j + d as usize } else { s_j.saturating_sub((-d) as usize) };
    out.boundary = d >= 0 && d < 200;
    // where the limit is set: right after construction, or right before the operation that made the unlimited arena obtain chunk j
    let set_at = if g(7) & 1 == 0 { 0 } else { acq[j].0 };
    // phase B
    let b = {
        let _g = enter_arena(2);
        Bump::<M>::with_min_align_and_capacity(cap_req)
    };
    let mut held_b = 0usize;
    let mut nb = 0usize; // chunks of B so far
    let mut in_step = true;
    ledger::take_events_for(2, &mut evs);
    for e in evs.iter().filter(|e| e.kind == EvKind::Alloc) {
        held_b += e.size - km;
        nb += 1;
    }
    if set_at == 0 {
        let _g = enter_arena(2);
        b.set_allocation_limit(Some(limit));
    }
    'ops: for k in 0..nops {
        if set_at == k + 1 && set_at != 0 {
            let _g = enter_arena(2);
            b.set_allocation_limit(Some(limit));
        }
        let l = req(k);
        let r = {
            let _g = enter_arena(2);
            b.try_alloc_layout(l).is_ok()
        };
        ledger::take_events_for(2, &mut evs);
        let got: Vec<usize> = evs.iter().filter(|e| e.kind == EvKind::Alloc).map(|e| e.size - km).collect();
        // what the unlimited arena did at this operation
        let want: Vec<(usize, usize, usize)> = acq.iter().filter(|x| x.0 == k + 1).cloned().collect();
        let limited_now = set_at <= k + 1;
        if in_step {
            for (wi, w) in want.iter().enumerate() {
                let permitted = !limited_now || w.1 + w.2 <= limit;
                if !permitted {
                    // from here on the two arenas may legitimately differ
                    in_step = false;
                    break;
                }
                out.compared += 1;
                match got.get(wi) {
                    Some(&u) if u >= w.2 => {}
                    Some(&u) => {
                        out.viol.push(format!(
                            "Bump<{M}> (capacity {cap_req}), allocation limit {limit}: at request {k} (size {}, align {}) the arena held {} bytes for allocation; without a limit it obtains a chunk with {} bytes for allocation there ({} + {} = {} <= limit, so the limit permits it), with the limit it obtained one with only {u}",
                            l.size(), l.align(), w.1, w.2, w.1, w.2, w.1 + w.2
                        ));
                        break 'ops;
                    }
                    None => {
                        out.viol.push(format!(
                            "Bump<{M}> (capacity {cap_req}), allocation limit {limit}: at request {k} (size {}, align {}) the arena held {} bytes for allocation; without a limit it obtains a chunk with {} bytes for allocation there ({} + {} = {} <= limit, so the limit permits it), with the limit it {}",
                            l.size(), l.align(), w.1, w.2, w.1, w.2, w.1 + w.2, if r { "obtained none" } else { "refused the request" }
                        ));
                        break 'ops;
                    }
                }
            }
            if in_step && want.is_empty() && !got.is_empty() {
                // B needed memory where A did not although they were in step: only possible if B wasted space
                in_step = false;
            }
        }
        for u in got {
            held_b += u;
            nb += 1;
        }
        if !in_step {
            break;
        }
    }
    let _ = (held_b, nb);
    {
        let _g = enter_arena(2);
        drop(b);
    }
    out
}

impl Engine for C18Engine {
    fn prop(&self) -> &'static str {
        "C18"
    }
    fn strategy(&self, tier: Tier) -> BoxedStrategy<Vec<u8>> {
        let hist = self.inner.strategy(tier).prop_map(|mut v| {
            v.insert(0, 0);
            v
        });
        let vecw = (0u8..96, proptest::collection::vec((any::<u8>(), prop_oneof![4 => 0u8..16, 2 => 16u8..128, 1 => 128u8..=255]), 1..60)).prop_map(|(e, ops)| {
            let mut v = vec![1, e];
            for (k, n) in ops {
                v.push(k);
                v.push(n);
            }
            v
        });
        let arenaw = (0u8..5, proptest::collection::vec(any::<u8>(), 140)).prop_map(|(m, mut v)| {
            v.insert(0, 2);
            v.insert(1, m);
            v
        });
        // family 3: the collections slot machine of C13/C14 (every Vec/String operation, several collections and raw
        // neighbours in one arena) with the capacity oracles only: a push within capacity stays in place, room promised
        // by with_capacity_in / reserve is still there after any later operation, a String's capacity is never lowered
        // except by shrink_to_fit / wholesale assignment
        let w: [u32; 30] = [10, 4, 6, 6, 4, 4, 2, 4, 5, 4, 5, 4, 7, 6, 4, 5, 3, 8, 4, 2, 1, 1, 2, 1, 2, 7, 4, 5, 3, 3];
        let collw = crate::coll_eng::coll_strategy(&w, 40).prop_map(|mut v| {
            v.insert(0, 3);
            v
        });
        let limitw = (0u8..5, proptest::collection::vec(any::<u8>(), 130)).prop_map(|(m, mut v)| {
            v.insert(0, 4);
            v.insert(1, m);
            v
        });
        prop_oneof![3 => hist, 3 => vecw, 2 => arenaw, 2 => collw, 2 => limitw].boxed()
    }
    fn run(&self, bytes: &[u8]) -> CaseOut {
        let mode = bytes.first().cloned().unwrap_or(0);
        let thorough = std::env::var("VERIF_TIER").map_or(false, |t| t == "thorough");
        match mode {
            0 => {
                let mut o = self.inner.run(&bytes[1..]);
                o.hash = fnv(bytes);
                o.stats.extend_from_slice(&[0, 0, 0, 0, 0, 0, 0]);
                o
            }
            1 => {
                let _ = k_meta();
                ledger::begin_case(5);
                let body = bytes.get(2..).unwrap_or(&[]);
                let e = bytes.get(1).cloned().unwrap_or(0);
                // the collection starts empty or with a requested capacity (with_capacity_in)
                let ic = match e / 8 {
                    0..=3 => None,
                    4 => Some(1),
                    5 => Some(7),
                    6 => Some(12),
                    7 => Some(64),
                    8 => Some(1000),
                    _ => Some(e as usize),
                };
                let r = match e % 8 {
                    0 => vec_workload::<u8>(body, ic),
                    1 => vec_workload::<u16>(body, ic),
                    2 => vec_workload::<u32>(body, ic),
                    3 => vec_workload::<u64>(body, ic),
                    4 => vec_workload::<u128>(body, ic),
                    5 => vec_workload::<[u64; 3]>(body, ic),
                    6 => vec_workload::<[u64; 8]>(body, ic),
                    _ => string_workload(body, ic),
                };
                ledger::end_case();
                let mut stats = vec![0u32; NST];
                stats.extend_from_slice(&[1, r.reallocs, r.ops, 0, 0, 0, 0]);
                CaseOut { viol: r.viol, nontrivial: r.reallocs >= 4, hash: fnv(bytes), stats, ..Default::default() }
            }
            3 => {
                let ctx = crate::coll_eng::run_coll_case(&bytes[1..]);
                let mut stats = vec![0u32; NST];
                stats.extend_from_slice(&[0, ctx.stats[crate::vec_eng::V::Reallocs as usize], 0, 0, 0, 0, 0]);
                let viol: Vec<String> = ctx.viol.iter().filter(|(p, _)| *p == "C18").map(|(_, m)| m.clone()).collect();
                let other: Vec<String> = ctx.viol.iter().filter(|(p, _)| *p != "C18").map(|(p, _)| p.to_string()).collect();
                CaseOut { viol, other, nontrivial: ctx.stats[crate::vec_eng::V::Reallocs as usize] > 0, hash: fnv(bytes), stats, ..Default::default() }
            }
            4 => {
                let _ = k_meta();
                ledger::begin_case(7);
                ledger::set_placement(1, ledger::Placement::Max);
                ledger::set_placement(2, ledger::Placement::Max);
                let body = &bytes[1..];
                let r = match bytes.get(1).cloned().unwrap_or(0) % 5 {
                    0 => limit_twin::<1>(body),
                    1 => limit_twin::<2>(body),
                    2 => limit_twin::<4>(body),
                    3 => limit_twin::<8>(body),
                    _ => limit_twin::<16>(body),
                };
                ledger::end_case();
                let mut stats = vec![0u32; NST];
                stats.extend_from_slice(&[0, 0, 0, 0, 0, 1, r.compared]);
                CaseOut { viol: r.viol, nontrivial: r.chunks >= 3 && r.compared >= 2 && r.boundary, hash: fnv(bytes), stats, ..Default::default() }
            }
            _ => {
                let _ = k_meta();
                ledger::begin_case(6);
                let r = match bytes.get(1).cloned().unwrap_or(0) % 5 {
                    0 => arena_workload::<1>(&bytes[1..], thorough),
                    1 => arena_workload::<2>(&bytes[1..], thorough),
                    2 => arena_workload::<4>(&bytes[1..], thorough),
                    3 => arena_workload::<8>(&bytes[1..], thorough),
                    _ => arena_workload::<16>(&bytes[1..], thorough),
                };
                ledger::end_case();
                let mut stats = vec![0u32; NST];
                stats.extend_from_slice(&[0, 0, 0, 1, r.chunks, 0, 0]);
                CaseOut { viol: r.viol, nontrivial: r.chunks >= 4, hash: fnv(bytes), stats, ..Default::default() }
            }
        }
    }
    fn describe(&self, bytes: &[u8]) -> Value {
        match bytes.first().cloned().unwrap_or(0) {
            0 => self.inner.describe(&bytes[1..]),
            1 => json!({"family": "Vec/String growth workload", "element": (["u8", "u16", "u32", "u64", "u128", "[u64;3]", "[u64;8]", "String"][(bytes.get(1).cloned().unwrap_or(0) % 8) as usize]),
                        "ops": bytes.get(2..).unwrap_or(&[]).chunks(2).map(|c| format!("{}({})", ["push-run", "push-run", "extend_from_slice_copy", "extend_from_slice_copy", "extend(iter)", "reserve+fill", "clear", "truncate(half)", "pop-run", "neighbour alloc", "reserve+extend(loosely hinted iterator)", "from_iter_in(loosely hinted iterator)"][(c[0] % 12) as usize], c.get(1).cloned().unwrap_or(0))).collect::<Vec<_>>()}),
            3 => {
                let mut d = crate::coll_eng::describe_coll(&bytes[1..]);
                d["family"] = json!("collections slot machine, capacity oracles");
                d
            }
            4 => json!({"family": "doubling while the limit permits (unlimited arena vs arena limited around the total after its j-th chunk)", "min_align": ([1, 2, 4, 8, 16][(bytes.get(1).cloned().unwrap_or(0) % 5) as usize]), "bytes_hex": hex(bytes)}),
            _ => json!({"family": "arena capacity partition + volume workload", "min_align": ([1, 2, 4, 8, 16][(bytes.get(1).cloned().unwrap_or(0) % 5) as usize]), "bytes_hex": hex(bytes)}),
        }
    }
    fn stat_names(&self) -> Vec<&'static str> {
        let mut n = ST_NAMES.to_vec();
        n.extend_from_slice(&["vec_workloads", "vec_reallocations", "vec_ops", "arena_workloads", "arena_workload_chunks", "limit_twin_workloads", "limit_twin_chunks_compared"]);
        n
    }
    fn fuzz(&self) -> Option<FuzzSpec> {
        Some(FuzzSpec { target: "fz_arena", max_len: 8 + 4 * 80, target_prefix: vec![], engine_prefix: vec![0] })
    }
    fn cases(&self, tier: Tier) -> u32 {
        match tier {
            Tier::Quick => 2500,
            Tier::Thorough => 30000,
        }
    }
    fn rule(&self) -> String {
        "five proptest-generated families: (4) doubling while the limit permits: one request sequence served by an arena without a limit and by one whose limit sits on, or a few bytes around, the total the first holds after its j-th chunk (set at construction or right before that chunk is needed); whenever the chunk the unlimited arena chose fits under the limit the limited arena must obtain one at least as large at the same request, non-trivial = at least 3 chunks, 2 compared, limit within 200 bytes above a chunk boundary; (3) the collections slot machine of C13/C14 with the capacity oracles only (push within capacity stays in place; room promised by with_capacity_in/reserve survives every later operation incl. both operands of append; a String's capacity is only lowered by shrink_to_fit or wholesale assignment), non-trivial = at least one reallocation; (0) single-arena histories with chunk_capacity honesty probes and provably-fitting requests; (1) Vec<T> (T of 1..64 bytes) and String workloads of push runs, bulk extends, reserve+fill, clear/truncate/pop and neighbour allocations: pushes within capacity never move the buffer, reserved room is usable in place, every growth at least doubles, reallocations <= log2(capacity ratio)+3, final capacity <= 4x the most ever needed; (2) arenas built with a capacity: the capacity is served as a generated partition (sizes multiple of MIN_ALIGN, align <= MIN_ALIGN) with zero global-allocator events, then a volume workload (1 KiB..4 MiB quick, ..64 MiB thorough; four size distributions): chunk sizes non-decreasing, #chunks <= 2*log2(held/256)+4, held <= 8x occupied + 16 KiB + 2x capacity. non-trivial = history with >= 4 chunks, Vec workload with >= 4 reallocations, arena workload with >= 4 chunks; distinct = distinct case bytes".into()
    }
    fn assumptions(&self) -> Vec<String> {
        vec!["the numeric bounds are deliberately loose: they separate geometric from linear growth, nothing finer".into(), "reserve_exact / shrink_to_fit are not part of the growth workloads (they are not amortised by design)".into()]
    }
}
