//! Element types for the collections interpreters: values with identity, two-sided drop ledger
//! (side 0 = subject / bumpalo, side 1 = reference / std) and panic injection points.

use crate::ledger::enter_user;
use std::cell::{Cell, RefCell};

pub const MAXID: usize = 1 << 16;

pub struct Side {
    pub drops: Vec<u8>,       // per serial id
    pub payloads: Vec<u32>,   // payload of every value dropped, in drop order
    pub next_id: u32,
    pub created: Vec<u32>,    // payload per id
    /// destructor calls on something that is not a value this side ever created (unknown id):
    /// uninitialised or stale memory treated as a live element
    pub bogus: u32,
}
impl Side {
    fn new() -> Self {
        Side { drops: vec![0; 4096], payloads: Vec::with_capacity(4096), next_id: 1, created: Vec::with_capacity(4096), bogus: 0 }
    }
}

thread_local! {
    static SIDES: RefCell<[Side; 2]> = RefCell::new([Side::new(), Side::new()]);
    /// callback counter / panic injection: when COUNT reaches PANIC_AT a callback panics (once)
    static CB_COUNT: Cell<u32> = const { Cell::new(0) };
    static CB_PANIC_AT: Cell<u32> = const { Cell::new(u32::MAX) };
    static CB_SIDE: Cell<u8> = const { Cell::new(0) };
}

pub fn reset_sides() {
    SIDES.with(|s| {
        let mut s = s.borrow_mut();
        for side in s.iter_mut() {
            side.drops.iter_mut().for_each(|d| *d = 0);
            side.payloads.clear();
            side.created.clear();
            side.next_id = 1;
            side.bogus = 0;
        }
    });
    cb_reset(u32::MAX, 0);
}

fn new_id(side: u8, val: u32) -> u32 {
    SIDES.with(|s| {
        let mut s = s.borrow_mut();
        let sd = &mut s[side as usize];
        let id = sd.next_id;
        sd.next_id += 1;
        if sd.drops.len() <= id as usize {
            let n = sd.drops.len() * 2;
            sd.drops.resize(n, 0);
        }
        sd.created.push(val);
        id
    })
}

fn record_drop(side: u8, id: u32, val: u32) {
    SIDES.with(|s| {
        let mut s = s.borrow_mut();
        let sd = &mut s[side as usize];
        if (id as usize) < sd.drops.len() {
            sd.drops[id as usize] = sd.drops[id as usize].saturating_add(1);
        }
        if id == 0 || id >= sd.next_id {
            sd.bogus += 1;
        }
        sd.payloads.push(val);
    })
}

/// ids on `side` whose destructor ran more than once
pub fn double_drops(side: u8) -> Vec<u32> {
    SIDES.with(|s| s.borrow()[side as usize].drops.iter().enumerate().filter(|(_, d)| **d > 1).map(|(i, _)| i as u32).collect())
}
/// destructor calls on memory that never held a value created on `side`
pub fn bogus_drops(side: u8) -> u32 {
    SIDES.with(|s| s.borrow()[side as usize].bogus)
}
pub fn drops_of(side: u8, id: u32) -> u8 {
    SIDES.with(|s| s.borrow()[side as usize].drops.get(id as usize).cloned().unwrap_or(0))
}
/// sorted payloads dropped on `side` since position `from`; returns (sorted list, new position)
pub fn dropped_since(side: u8, from: usize) -> (Vec<u32>, usize) {
    SIDES.with(|s| {
        let s = s.borrow();
        let p = &s[side as usize].payloads;
        let mut v = p[from.min(p.len())..].to_vec();
        v.sort_unstable();
        (v, p.len())
    })
}
pub fn created_count(side: u8) -> u32 {
    SIDES.with(|s| s.borrow()[side as usize].next_id - 1)
}
/// ids created on `side` that were never dropped, as sorted payloads
pub fn undropped_payloads(side: u8) -> Vec<u32> {
    SIDES.with(|s| {
        let s = s.borrow();
        let sd = &s[side as usize];
        let mut v: Vec<u32> = (1..sd.next_id).filter(|&i| sd.drops[i as usize] == 0).map(|i| sd.created[i as usize - 1]).collect();
        v.sort_unstable();
        v
    })
}

// ---------------------------------------------------------------------------------------------
// callback bookkeeping (C16 panic enumeration)

pub fn cb_reset(panic_at: u32, side: u8) {
    CB_COUNT.with(|c| c.set(0));
    CB_PANIC_AT.with(|c| c.set(panic_at));
    CB_SIDE.with(|c| c.set(side));
}
pub fn cb_count() -> u32 {
    CB_COUNT.with(|c| c.get())
}
/// Every user callback invoked by the subject side calls this first.
#[inline]
pub fn cb_tick(side: u8) {
    if side != CB_SIDE.with(|c| c.get()) {
        return;
    }
    let n = CB_COUNT.with(|c| {
        let v = c.get();
        c.set(v + 1);
        v
    });
    if n == CB_PANIC_AT.with(|c| c.get()) {
        CB_PANIC_AT.with(|c| c.set(u32::MAX)); // panic once
        panic!("injected callback panic");
    }
}

// ---------------------------------------------------------------------------------------------

pub trait Elem: Sized + PartialEq + std::fmt::Debug + 'static {
    const HAS_DROP: bool;
    const SIDE: u8;
    fn make(val: u32) -> Self;
    fn val(&self) -> u32;
    /// change the payload in place (through a `&mut` handed out by the container)
    fn set_val(&mut self, _v: u32) {}
    fn dup(&self) -> Self;
    fn ident(&self) -> u32 {
        0
    }
}

/// 8-byte element with identity and observable clone/drop; SIDE 0 = subject, 1 = reference
pub struct El<const SIDE: u8> {
    pub id: u32,
    pub val: u32,
}
impl<const SIDE: u8> El<SIDE> {
    pub fn new(val: u32) -> Self {
        El { id: new_id(SIDE, val), val }
    }
}
impl<const SIDE: u8> Drop for El<SIDE> {
    fn drop(&mut self) {
        let _u = enter_user();
        record_drop(SIDE, self.id, self.val);
        cb_tick(SIDE | 0x40); // destructor panic points are a separate family (see cb_reset)
        drop_bomb_tick(SIDE);
    }
}
thread_local! {
    /// per-side drop bombs: the n-th destructor run from now panics once (0 = disarmed); used to compare with std what a
    /// retain leaves behind when the destructor of a removed element panics
    static DROP_BOMB: [Cell<u32>; 2] = const { [const { Cell::new(0) }; 2] };
}
pub fn arm_drop_bombs(n: u32) {
    DROP_BOMB.with(|b| b.iter().for_each(|c| c.set(n)));
}
fn drop_bomb_tick(side: u8) {
    let fire = DROP_BOMB.with(|b| {
        let c = &b[(side & 1) as usize];
        match c.get() {
            0 => false,
            1 => {
                c.set(0);
                true
            }
            n => {
                c.set(n - 1);
                false
            }
        }
    });
    if fire && !std::thread::panicking() {
        panic!("drop bomb");
    }
}
thread_local! {
    /// per-side clone bombs: the n-th clone from now panics (0 = disarmed); used to compare panic paths with std
    static BOMB: [Cell<u32>; 2] = const { [const { Cell::new(0) }; 2] };
}
pub fn arm_clone_bombs(n: u32) {
    BOMB.with(|b| b.iter().for_each(|c| c.set(n)));
}
fn bomb_tick(side: u8) {
    let fire = BOMB.with(|b| {
        let c = &b[(side & 1) as usize];
        match c.get() {
            0 => false,
            1 => {
                c.set(0);
                true
            }
            n => {
                c.set(n - 1);
                false
            }
        }
    });
    if fire {
        panic!("clone bomb");
    }
}

impl<const SIDE: u8> Clone for El<SIDE> {
    fn clone(&self) -> Self {
        let _u = enter_user();
        bomb_tick(SIDE);
        cb_tick(SIDE);
        El::new(self.val)
    }
}
impl<const SIDE: u8> PartialEq for El<SIDE> {
    fn eq(&self, o: &Self) -> bool {
        let _u = enter_user();
        cb_tick(SIDE);
        self.val == o.val
    }
}
impl<const SIDE: u8> std::fmt::Debug for El<SIDE> {
    fn fmt(&self, f: &mut std::fmt::Formatter<'_>) -> std::fmt::Result {
        write!(f, "{}", self.val)
    }
}
impl<const SIDE: u8> Elem for El<SIDE> {
    const HAS_DROP: bool = true;
    const SIDE: u8 = SIDE;
    fn make(val: u32) -> Self {
        El::new(val)
    }
    fn val(&self) -> u32 {
        self.val
    }
    fn set_val(&mut self, v: u32) {
        self.val = v;
    }
    fn dup(&self) -> Self {
        self.clone()
    }
    fn ident(&self) -> u32 {
        self.id
    }
}

/// zero-sized element with an observable destructor (payload is always 0)
pub struct Zs<const SIDE: u8>;
thread_local! {
    static ZDROPS: [Cell<u32>; 2] = const { [const { Cell::new(0) }; 2] };
    static ZMADE: [Cell<u32>; 2] = const { [const { Cell::new(0) }; 2] };
}
pub fn z_reset() {
    ZDROPS.with(|z| z.iter().for_each(|c| c.set(0)));
    ZMADE.with(|z| z.iter().for_each(|c| c.set(0)));
}
pub fn z_counts(side: u8) -> (u32, u32) {
    (ZMADE.with(|z| z[side as usize].get()), ZDROPS.with(|z| z[side as usize].get()))
}
impl<const SIDE: u8> Zs<SIDE> {
    pub fn new() -> Self {
        ZMADE.with(|z| z[SIDE as usize].set(z[SIDE as usize].get() + 1));
        Zs
    }
}
impl<const SIDE: u8> Drop for Zs<SIDE> {
    fn drop(&mut self) {
        let _u = enter_user();
        ZDROPS.with(|z| z[SIDE as usize].set(z[SIDE as usize].get() + 1));
        cb_tick(SIDE | 0x40);
    }
}

impl<const SIDE: u8> Clone for Zs<SIDE> {
    fn clone(&self) -> Self {
        let _u = enter_user();
        cb_tick(SIDE);
        Zs::new()
    }
}
impl<const SIDE: u8> PartialEq for Zs<SIDE> {
    fn eq(&self, _o: &Self) -> bool {
        true
    }
}
impl<const SIDE: u8> std::fmt::Debug for Zs<SIDE> {
    fn fmt(&self, f: &mut std::fmt::Formatter<'_>) -> std::fmt::Result {
        write!(f, "z")
    }
}
impl<const SIDE: u8> Elem for Zs<SIDE> {
    const HAS_DROP: bool = true;
    const SIDE: u8 = SIDE;
    fn make(_val: u32) -> Self {
        Zs::new()
    }
    fn val(&self) -> u32 {
        0
    }
    fn dup(&self) -> Self {
        self.clone()
    }
}
impl Elem for u8 {
    const HAS_DROP: bool = false;
    const SIDE: u8 = 0;
    fn make(val: u32) -> Self {
        val as u8
    }
    fn val(&self) -> u32 {
        *self as u32
    }
    fn set_val(&mut self, v: u32) {
        *self = v as u8;
    }
    fn dup(&self) -> Self {
        *self
    }
}
impl Elem for u32 {
    const HAS_DROP: bool = false;
    const SIDE: u8 = 0;
    fn make(val: u32) -> Self {
        val
    }
    fn val(&self) -> u32 {
        *self
    }
    fn dup(&self) -> Self {
        *self
    }
}
