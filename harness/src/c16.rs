//! C16 — a panicking callback never causes double drops or invalid text.
//! Panic-point enumeration: every scenario is dry-run to count its callback invocations n, then
//! re-run n times with the k-th invocation panicking (once), followed by a generated follow-up.

use crate::arena_eng::k_meta;
use crate::celem::*;
use crate::ledger::{self, enter_arena};
use crate::runner::*;
use crate::sim::panic_msg;
use bumpalo::boxed::Box as BBox;
use bumpalo::collections::{CollectIn, String as BString, Vec as BVec};
use bumpalo::Bump;
use proptest::prelude::*;
use proptest::strategy::BoxedStrategy;
use serde_json::{json, Value};
use std::panic::{catch_unwind, AssertUnwindSafe};

type E = El<0>;

pub const NSCEN: u8 = 33;
pub const SCEN_NAMES: [&str; NSCEN as usize] = [
    "retain", "drain_filter (caller-driven)", "dedup_by_key", "dedup_by", "dedup", "resize", "extend(iter)", "extend_from_slice",
    "clone", "splice(iter)", "from_iter_in", "truncate (panicking Drop)", "clear (panicking Drop)", "drop(vec) (panicking Drop)",
    "into_iter drop (panicking Drop)", "drain drop (panicking Drop)", "alloc_slice_fill_with", "alloc_slice_clone", "alloc_slice_fill_iter",
    "alloc_slice_fill_clone", "alloc_try_with / alloc_with", "String::retain", "Box<El> drop (panicking Drop)", "Box<[El]> drop (panicking Drop)",
    "vec! macro (clone)", "collect_in", "Vec == Vec (eq)", "drain_filter drop (finishing, predicate panics)", "alloc_slice_try_fill_with", "String::extend(iter)",
    "format! with a panicking Display", "alloc_slice_fill_iter with an iterator that yields fewer items than it promised", "alloc_slice_fill_default (panicking Default)",
];

#[derive(Clone, Debug)]
pub struct Scenario {
    pub scen: u8,
    pub pre: Vec<u32>,
    pub a: u8,
    pub b: u8,
    pub c: u8,
    pub follow: u8,
}

pub fn decode(bytes: &[u8]) -> Scenario {
    let g = |i: usize| bytes.get(i).cloned().unwrap_or(0);
    let n = (g(1) % 9) as usize;
    let pre = (0..n).map(|j| (g(6 + j) % 6) as u32).collect();
    Scenario { scen: g(0) % NSCEN, pre, a: g(2), b: g(3), c: g(4), follow: g(5) }
}

fn destructor_family(scen: u8) -> bool {
    matches!(scen, 11..=15 | 22 | 23)
}

pub struct RunOut {
    pub callbacks: u32,
    pub panicked: bool,
    pub viol: Vec<String>,
    /// signature of a listed known finding that this run exhibited
    pub known: Option<&'static str>,
    /// elements had already been moved/removed when the panic fired
    pub moved_before_panic: bool,
}

struct TickIter {
    vals: std::vec::IntoIter<u32>,
    exact: bool,
}
impl Iterator for TickIter {
    type Item = E;
    fn next(&mut self) -> Option<E> {
        let _u = ledger::enter_user();
        let v = self.vals.next()?;
        cb_tick(0);
        Some(E::new(v))
    }
    fn size_hint(&self) -> (usize, Option<usize>) {
        if self.exact {
            self.vals.size_hint()
        } else {
            (0, None)
        }
    }
}
struct ExactTickIter(TickIter);
impl Iterator for ExactTickIter {
    type Item = E;
    fn next(&mut self) -> Option<E> {
        self.0.next()
    }
    fn size_hint(&self) -> (usize, Option<usize>) {
        self.0.vals.size_hint()
    }
}
impl ExactSizeIterator for ExactTickIter {}

fn reachable_check(what: &str, v: &[E], viol: &mut Vec<String>) {
    let mut seen = std::collections::HashSet::new();
    for x in v.iter() {
        if drops_of(0, x.id) > 0 {
            viol.push(format!("{what}: value #{} (payload {}) is reachable through the container although its destructor already ran", x.id, x.val));
        }
        if !seen.insert(x.id) {
            viol.push(format!("{what}: value #{} is reachable twice through the container (it will be dropped twice)", x.id));
        }
    }
}

/// run the scenario with the `panic_at`-th callback panicking (u32::MAX = dry run)
pub fn run_scenario(sc: &Scenario, panic_at: u32) -> RunOut {
    run_scenario_family(sc, panic_at, if destructor_family(sc.scen) { 0x40 } else { 0 })
}

/// `family`: 0 = the k-th callback (predicate / key / Clone / PartialEq / iterator / initialiser) panics,
/// 0x40 = the k-th destructor call panics
pub fn run_scenario_family(sc: &Scenario, panic_at: u32, family: u8) -> RunOut {
    let _ = k_meta();
    ledger::begin_case(7);
    reset_sides();
    z_reset();
    let mut out = RunOut { callbacks: 0, panicked: false, viol: vec![], known: None, moved_before_panic: false };
    let bump = {
        let _g = enter_arena(1);
        Bump::new()
    };
    {
        let b = &bump;
        let mk = |vals: &[u32]| -> BVec<E> {
            let _g = enter_arena(1);
            BVec::from_iter_in(vals.iter().map(|&x| E::new(x)), b)
        };
        let m = 2 + (sc.a % 3) as u32;
        let r = (sc.b as u32) % m;
        let extra: Vec<u32> = (0..(sc.c % 6) as usize).map(|j| (sc.a as u32 + j as u32) % 6).collect();
        let mut vec_after: Option<BVec<E>> = None;
        let mut str_after: Option<BString> = None;
        let mut held_by_caller: Vec<E> = Vec::with_capacity(32);
        let mut removed_before = false;
        // blocks an arena initialiser allocates in the same arena and keeps (their addresses are published before it
        // panics): they stay live, so nothing allocated later may overlap or overwrite them
        let kept: std::cell::RefCell<Vec<(usize, u64)>> = std::cell::RefCell::new(Vec::with_capacity(16));
        let keep_some = sc.follow & 4 != 0;
        let keep = |tag: u64| {
            if keep_some {
                let k: &mut u64 = b.alloc(0xA11C_0000_0000_0000u64 | tag);
                let _u = ledger::enter_user();
                kept.borrow_mut().push((k as *mut u64 as usize, *k));
            }
        };

        // build the pre-state without counting its callbacks
        cb_reset(u32::MAX, family);
        let mut v = mk(&sc.pre);
        if sc.follow & 2 != 0 {
            // leave already-dropped values in the spare capacity, as a vector with a history has
            let _g = enter_arena(1);
            let n = v.len();
            v.reserve(6);
            for j in 0..3 {
                v.push(E::new(20 + j));
            }
            v.truncate(n);
        }
        let mut v2 = if matches!(sc.scen, 8 | 26) { Some(mk(&sc.pre)) } else { None };
        let src: Vec<E> = extra.iter().map(|&x| E::new(x)).collect();
        cb_reset(panic_at, family);

        let res = {
            let _g = enter_arena(1);
            catch_unwind(AssertUnwindSafe(|| {
                match sc.scen {
                    0 => v.retain(|x| {
                        let _u = ledger::enter_user();
                        cb_tick(0);
                        x.val % m != r
                    }),
                    1 => {
                        let take = (sc.c % 5) as usize;
                        let mut d = v.drain_filter(|x| {
                            let _u = ledger::enter_user();
                            cb_tick(0);
                            x.val % m == r
                        });
                        for _ in 0..take {
                            match d.next() {
                                Some(x) => {
                                    let _u = ledger::enter_user();
                                    removed_before = true;
                                    held_by_caller.push(x);
                                }
                                None => break,
                            }
                        }
                    }
                    27 => {
                        let d = v.drain_filter(|x| {
                            let _u = ledger::enter_user();
                            cb_tick(0);
                            x.val % m == r
                        });
                        drop(d);
                    }
                    2 => v.dedup_by_key(|x| {
                        let _u = ledger::enter_user();
                        cb_tick(0);
                        x.val / m
                    }),
                    3 => v.dedup_by(|x, y| {
                        let _u = ledger::enter_user();
                        cb_tick(0);
                        x.val % m == y.val % m
                    }),
                    4 => v.dedup(),
                    5 => {
                        let n = (sc.c as usize) % (sc.pre.len() + 8);
                        let val = {
                            let _u = ledger::enter_user();
                            cb_reset_keep();
                            E::new(9)
                        };
                        v.resize(n, val)
                    }
                    6 => v.extend(TickIter { vals: extra.clone().into_iter(), exact: sc.b & 1 == 0 }),
                    7 => v.extend_from_slice(&src),
                    8 if sc.c & 1 == 1 => {
                        // clone_from onto a non-empty destination of another length: the destination's old elements are
                        // replaced while the user's Clone may panic
                        let mut dst: BVec<E> = BVec::from_iter_in((0..(sc.b % 6) as u32).map(|i| E::new(500 + i)), b);
                        dst.clone_from(&v);
                        let _u = ledger::enter_user();
                        drop(dst);
                    }
                    8 => {
                        let c = v.clone();
                        let _u = ledger::enter_user();
                        drop(c);
                    }
                    9 => {
                        let len = v.len();
                        let lo = (sc.a as usize * (len + 1)) >> 8;
                        let hi = lo + (((sc.b as usize) * (len - lo + 1)) >> 8);
                        let mut sp = v.splice(lo..hi, TickIter { vals: extra.clone().into_iter(), exact: sc.c & 0x80 == 0 });
                        // removed elements taken from either end before the Splice is let go
                        for _ in 0..((sc.c & 3) % 3) {
                            if let Some(x) = sp.next() {
                                let _u = ledger::enter_user();
                                held_by_caller.push(x);
                            }
                        }
                        for _ in 0..(((sc.c >> 2) & 3) % 3) {
                            if let Some(x) = sp.next_back() {
                                let _u = ledger::enter_user();
                                held_by_caller.push(x);
                            }
                        }
                        drop(sp);
                    }
                    10 => {
                        let nv: BVec<E> = BVec::from_iter_in(TickIter { vals: extra.clone().into_iter(), exact: sc.b & 1 == 0 }, b);
                        let _u = ledger::enter_user();
                        drop(nv);
                    }
                    25 => {
                        let nv: BVec<E> = TickIter { vals: extra.clone().into_iter(), exact: true }.collect_in(b);
                        let _u = ledger::enter_user();
                        drop(nv);
                    }
                    24 => {
                        let n = (sc.c % 6) as usize;
                        let val = {
                            let _u = ledger::enter_user();
                            E::new(4)
                        };
                        let nv = bumpalo::vec![in b; val; n];
                        let _u = ledger::enter_user();
                        drop(nv);
                    }
                    26 => {
                        let _ = v == *v2.as_ref().unwrap();
                    }
                    11 => v.truncate((sc.a as usize * (v.len() + 1)) >> 8),
                    12 => v.clear(),
                    13 => {
                        let vv = std::mem::replace(&mut v, BVec::new_in(b));
                        drop(vv);
                    }
                    14 => {
                        let vv = std::mem::replace(&mut v, BVec::new_in(b));
                        let mut it = vv.into_iter();
                        for _ in 0..(sc.a % 3) {
                            if let Some(x) = it.next() {
                                let _u = ledger::enter_user();
                                held_by_caller.push(x);
                            }
                        }
                        for _ in 0..((sc.a >> 2) % 3) {
                            if let Some(x) = it.next_back() {
                                let _u = ledger::enter_user();
                                held_by_caller.push(x);
                            }
                        }
                        // the ways of skipping ahead: the skipped elements' destructors run inside the iterator
                        match (sc.a >> 4) % 5 {
                            1 => {
                                if let Some(x) = it.nth(1 + (sc.b % 3) as usize) {
                                    let _u = ledger::enter_user();
                                    held_by_caller.push(x);
                                }
                                drop(it);
                            }
                            2 => {
                                let mut sk = it.skip(1 + (sc.b % 3) as usize);
                                if let Some(x) = sk.next() {
                                    let _u = ledger::enter_user();
                                    held_by_caller.push(x);
                                }
                                drop(sk);
                            }
                            3 => {
                                let mut sb = it.step_by(2 + (sc.b % 2) as usize);
                                for _ in 0..2 {
                                    if let Some(x) = sb.next() {
                                        let _u = ledger::enter_user();
                                        held_by_caller.push(x);
                                    }
                                }
                                drop(sb);
                            }
                            4 => {
                                let n = it.by_ref().count();
                                let _ = n;
                                drop(it);
                            }
                            _ => drop(it),
                        }
                    }
                    15 => {
                        let len = v.len();
                        let lo = (sc.a as usize * (len + 1)) >> 8;
                        let hi = lo + (((sc.b as usize) * (len - lo + 1)) >> 8);
                        let mut d = v.drain(lo..hi);
                        for _ in 0..(sc.c % 3) {
                            if let Some(x) = d.next() {
                                let _u = ledger::enter_user();
                                held_by_caller.push(x);
                            }
                        }
                        // (double-ended: what is left in the Drain need not sit next to the tail)
                        for _ in 0..((sc.c >> 2) % 3) {
                            if let Some(x) = d.next_back() {
                                let _u = ledger::enter_user();
                                held_by_caller.push(x);
                            }
                        }
                        drop(d);
                    }
                    16 => {
                        let n = (sc.c % 8) as usize;
                        let s = b.alloc_slice_fill_with(n, |i| {
                            keep(i as u64);
                            let _u = ledger::enter_user();
                            cb_tick(0);
                            E::new(i as u32)
                        });
                        // the arena never drops: the caller would have to; mirror that
                        let _u = ledger::enter_user();
                        for x in s.iter_mut() {
                            unsafe { std::ptr::drop_in_place(x) };
                        }
                    }
                    17 => {
                        let s = b.alloc_slice_clone(&src);
                        let _u = ledger::enter_user();
                        for x in s.iter_mut() {
                            unsafe { std::ptr::drop_in_place(x) };
                        }
                    }
                    18 => {
                        let s = b.alloc_slice_fill_iter(ExactTickIter(TickIter { vals: extra.clone().into_iter(), exact: true }));
                        let _u = ledger::enter_user();
                        for x in s.iter_mut() {
                            unsafe { std::ptr::drop_in_place(x) };
                        }
                    }
                    19 => {
                        let n = (sc.c % 6) as usize;
                        let val = {
                            let _u = ledger::enter_user();
                            E::new(5)
                        };
                        let s = b.alloc_slice_fill_clone(n, &val);
                        let _u = ledger::enter_user();
                        for x in s.iter_mut() {
                            unsafe { std::ptr::drop_in_place(x) };
                        }
                    }
                    28 => {
                        let n = (sc.c % 8) as usize;
                        let fail = (sc.a as usize) % (n + 1);
                        let r: Result<&mut [E], u32> = b.alloc_slice_try_fill_with(n, |i| {
                            keep(i as u64);
                            let _u = ledger::enter_user();
                            cb_tick(0);
                            if i == fail {
                                Err(7)
                            } else {
                                Ok(E::new(i as u32))
                            }
                        });
                        if let Ok(s) = r {
                            let _u = ledger::enter_user();
                            for x in s.iter_mut() {
                                unsafe { std::ptr::drop_in_place(x) };
                            }
                        }
                    }
                    20 => {
                        if sc.a & 1 == 0 {
                            let r: Result<&mut E, u32> = b.alloc_try_with(|| {
                                keep(77);
                                let _u = ledger::enter_user();
                                cb_tick(0);
                                if sc.b & 1 == 0 {
                                    Ok(E::new(3))
                                } else {
                                    Err(1)
                                }
                            });
                            if let Ok(x) = r {
                                let _u = ledger::enter_user();
                                unsafe { std::ptr::drop_in_place(x) };
                            }
                        } else {
                            let x = b.alloc_with(|| {
                                keep(78);
                                let _u = ledger::enter_user();
                                cb_tick(0);
                                E::new(3)
                            });
                            let _u = ledger::enter_user();
                            unsafe { std::ptr::drop_in_place(x) };
                        }
                    }
                    21 | 29 => {
                        let text: String = sc.pre.iter().enumerate().map(|(i, &x)| crate::str_eng::CHARS[(x as usize * 3 + i + sc.a as usize) % crate::str_eng::CHARS.len()]).collect();
                        let mut s = BString::from_str_in(&text, b);
                        let rr = catch_unwind(AssertUnwindSafe(|| {
                            if sc.scen == 21 {
                                s.retain(|ch| {
                                    let _u = ledger::enter_user();
                                    cb_tick(0);
                                    ch as u32 % m != r
                                })
                            } else {
                                s.extend(text.chars().map(|ch| {
                                    let _u = ledger::enter_user();
                                    cb_tick(0);
                                    ch
                                }))
                            }
                        }));
                        {
                            let _u = ledger::enter_user();
                            str_after = Some(s);
                        }
                        if let Err(e) = rr {
                            std::panic::resume_unwind(e);
                        }
                    }
                    30 => {
                        struct PanickyDisplay(u32);
                        impl std::fmt::Display for PanickyDisplay {
                            fn fmt(&self, f: &mut std::fmt::Formatter<'_>) -> std::fmt::Result {
                                let _u = ledger::enter_user();
                                cb_tick(0);
                                write!(f, "<{}>", self.0)
                            }
                        }
                        let st = bumpalo::format!(in b, "{}-é-{}-{}", PanickyDisplay(1), PanickyDisplay(2), PanickyDisplay(3));
                        let _u = ledger::enter_user();
                        str_after = Some(st);
                    }
                    31 => {
                        // promises `extra.len() + 2` items, yields only `extra.len()`: bumpalo documents a panic
                        struct Liar(TickIter, usize);
                        impl Iterator for Liar {
                            type Item = E;
                            fn next(&mut self) -> Option<E> {
                                self.0.next()
                            }
                            fn size_hint(&self) -> (usize, Option<usize>) {
                                (self.1, Some(self.1))
                            }
                        }
                        impl ExactSizeIterator for Liar {}
                        let n = extra.len() + 2;
                        let s = b.alloc_slice_fill_iter(Liar(TickIter { vals: extra.clone().into_iter(), exact: true }, n));
                        let _u = ledger::enter_user();
                        for x in s.iter_mut() {
                            unsafe { std::ptr::drop_in_place(x) };
                        }
                    }
                    32 => {
                        struct PD(E);
                        impl Default for PD {
                            fn default() -> Self {
                                let _u = ledger::enter_user();
                                cb_tick(0);
                                PD(E::new(8))
                            }
                        }
                        let n = (sc.c % 7) as usize;
                        let s = b.alloc_slice_fill_default::<PD>(n);
                        let _u = ledger::enter_user();
                        for x in s.iter_mut() {
                            unsafe { std::ptr::drop_in_place(x) };
                        }
                    }
                    22 => {
                        let bx = BBox::new_in(
                            {
                                let _u = ledger::enter_user();
                                E::new(1)
                            },
                            b,
                        );
                        drop(bx);
                    }
                    23 => {
                        let vv = std::mem::replace(&mut v, BVec::new_in(b));
                        let bx: BBox<[E]> = vv.into_boxed_slice();
                        drop(bx);
                    }
                    _ => {}
                }
            }))
        };
        out.callbacks = cb_count();
        out.panicked = res.is_err();
        if let Err(e) = &res {
            let m = e.downcast_ref::<&str>().map(|s| s.to_string()).or_else(|| e.downcast_ref::<String>().cloned()).unwrap_or_default();
            if m != "injected callback panic" && !(sc.scen == 31 && m.contains("too few elements")) {
                out.viol.push(format!("{}: unexpected panic: {m}", SCEN_NAMES[sc.scen as usize]));
            }
        }
        drop(res);
        out.moved_before_panic = out.panicked && (removed_before || panic_at > 0);
        cb_reset(u32::MAX, family);
        let what = SCEN_NAMES[sc.scen as usize];

        // ---- oracle, part 1: state right after unwinding
        let dd = double_drops(0);
        if !dd.is_empty() {
            out.viol.push(format!("{what}: values with serial ids {:?} were dropped twice", dd));
        }
        reachable_check(what, &v, &mut out.viol);
        for x in held_by_caller.iter() {
            if drops_of(0, x.id) > 0 {
                out.viol.push(format!("{what}: value #{} handed to the caller had already been dropped", x.id));
            }
            if v.iter().any(|y| y.id == x.id) {
                out.viol.push(format!("{what}: value #{} was moved out to the caller but is still reachable through the vector", x.id));
            }
        }
        if let Some(s) = str_after.as_ref() {
            if std::str::from_utf8(s.as_bytes()).is_err() {
                out.viol.push(format!("{what}: after the panic the String holds invalid UTF-8: {:02x?}", s.as_bytes()));
            }
        }
        // ---- follow-up: keep using or drop the containers, then the arena
        let follow = catch_unwind(AssertUnwindSafe(|| {
            let _g = enter_arena(1);
            if sc.follow & 1 == 0 {
                v.push(E::new(11));
                let _ = v.pop();
                if !v.is_empty() {
                    let x = v.remove(0);
                    let _u = ledger::enter_user();
                    drop(x);
                }
                v.extend_from_slice(&src);
                if let Some(s) = str_after.as_mut() {
                    s.push('z');
                }
            }
            let x = b.alloc(0x1234_5678u32);
            assert_eq!(*x, 0x1234_5678);
            // a few more blocks of different shapes: none may land on a block an initialiser kept
            let fresh: [(usize, usize); 3] = [
                {
                    let s = b.alloc_slice_fill_copy(24, 0xEEu8);
                    (s.as_ptr() as usize, 24)
                },
                {
                    let s = b.alloc_slice_fill_copy(5, 0xEEEE_EEEE_EEEE_EEEEu64);
                    (s.as_ptr() as usize, 40)
                },
                (b.alloc(0xEEEEu16) as *mut u16 as usize, 2),
            ];
            let _u = ledger::enter_user();
            for (kp, kv) in kept.borrow().iter() {
                for (fp, fl) in fresh.iter() {
                    if *kp < fp + fl && *fp < kp + 8 {
                        panic!("a block allocated after the panic [{fp:#x}, +{fl}) overlaps a block the initialiser had allocated and kept [{kp:#x}, +8)");
                    }
                }
                let now = unsafe { std::ptr::read(*kp as *const u64) };
                if now != *kv {
                    panic!("a block the initialiser had allocated and kept reads {now:#x} instead of {kv:#x} after later allocations");
                }
            }
        }));
        if let Err(e) = follow {
            out.viol.push(format!("{what}: using the container/arena after the panic panicked: {}", panic_msg(e)));
        }
        reachable_check(what, &v, &mut out.viol);
        vec_after = Some(v);
        {
            let _g = enter_arena(1);
            let _ = catch_unwind(AssertUnwindSafe(|| {
                drop(vec_after.take());
                drop(v2.take());
                drop(str_after.take());
            }));
        }
        drop(held_by_caller);
        drop(src);
        if bogus_drops(0) > 0 {
            out.viol.push(format!("{what}: {} destructor call(s) ran on memory that never held a constructed value (uninitialised or stale slots treated as live elements)", bogus_drops(0)));
        }
        let dd = double_drops(0);
        if !dd.is_empty() && !out.viol.iter().any(|m| m.contains("dropped twice")) {
            out.viol.push(format!("{what}: after the follow-up and dropping the container, values with serial ids {:?} were dropped twice", dd));
        }
    }
    {
        let _g = enter_arena(1);
        drop(bump);
    }
    if family == 0 && matches!(sc.scen, 0 | 1 | 27 | 2 | 3 | 4 | 6 | 9 | 10) {
        tok_twin(sc, panic_at, &mut out.viol);
    }
    ledger::end_case();
    // known-finding signatures (DESIGN §2.6): matched on the scenario shape AND the observed failure
    if !out.viol.is_empty() && out.panicked {
        if sc.scen == 1 && out.moved_before_panic && out.viol.iter().all(|m| m.contains("dropped twice") || m.contains("reachable") || m.contains("already been dropped")) {
            out.known = Some("drain_filter-caller-driven-pred-panic-after-removal-double-drop");
        }
        if sc.scen == 21 && out.viol.iter().all(|m| m.contains("invalid UTF-8")) {
            out.known = Some("string-retain-pred-panic-invalid-utf8");
        }
    }
    out
}

/// A value without a destructor that is nevertheless unique (think `&mut T` or a `ManuallyDrop<Box<T>>`): it may be
/// moved or leaked but never duplicated, so after a panic no id may be reachable twice.
pub struct Tok {
    pub id: u32,
    pub val: u32,
}
impl PartialEq for Tok {
    fn eq(&self, o: &Tok) -> bool {
        let _u = ledger::enter_user();
        cb_tick(0);
        self.val == o.val
    }
}
struct TokIter {
    vals: std::vec::IntoIter<u32>,
    next_id: u32,
    exact: bool,
}
impl Iterator for TokIter {
    type Item = Tok;
    fn next(&mut self) -> Option<Tok> {
        let _u = ledger::enter_user();
        cb_tick(0);
        let v = self.vals.next()?;
        self.next_id += 1;
        Some(Tok { id: self.next_id, val: v })
    }
    fn size_hint(&self) -> (usize, Option<usize>) {
        if self.exact {
            self.vals.size_hint()
        } else {
            (0, None)
        }
    }
}

/// the same scenario and panic point on a vector of `Tok`s (callback-carrying operations only)
fn tok_twin(sc: &Scenario, panic_at: u32, viol: &mut Vec<String>) {
    let bump = {
        let _g = enter_arena(1);
        Bump::new()
    };
    {
        let b = &bump;
        let m = 2 + (sc.a % 3) as u32;
        let r = (sc.b as u32) % m;
        let extra: Vec<u32> = (0..(sc.c % 6) as usize).map(|j| (sc.a as u32 + j as u32) % 6).collect();
        let mut held: Vec<Tok> = Vec::with_capacity(32);
        cb_reset(u32::MAX, 0);
        let mut v: BVec<Tok> = {
            let _g = enter_arena(1);
            BVec::from_iter_in(sc.pre.iter().enumerate().map(|(i, &x)| Tok { id: i as u32, val: x }), b)
        };
        let mut made: Option<BVec<Tok>> = None;
        cb_reset(panic_at, 0);
        let res = {
            let _g = enter_arena(1);
            catch_unwind(AssertUnwindSafe(|| match sc.scen {
                0 => v.retain(|x| {
                    let _u = ledger::enter_user();
                    cb_tick(0);
                    x.val % m != r
                }),
                1 => {
                    let take = (sc.c % 5) as usize;
                    let mut d = v.drain_filter(|x| {
                        let _u = ledger::enter_user();
                        cb_tick(0);
                        x.val % m == r
                    });
                    for _ in 0..take {
                        match d.next() {
                            Some(x) => {
                                let _u = ledger::enter_user();
                                held.push(x);
                            }
                            None => break,
                        }
                    }
                }
                27 => {
                    let d = v.drain_filter(|x| {
                        let _u = ledger::enter_user();
                        cb_tick(0);
                        x.val % m == r
                    });
                    drop(d);
                }
                2 => v.dedup_by_key(|x| {
                    let _u = ledger::enter_user();
                    cb_tick(0);
                    x.val / m
                }),
                3 => v.dedup_by(|x, y| {
                    let _u = ledger::enter_user();
                    cb_tick(0);
                    x.val % m == y.val % m
                }),
                4 => v.dedup(),
                6 => v.extend(TokIter { vals: extra.clone().into_iter(), next_id: 1000, exact: sc.b & 1 == 0 }),
                9 => {
                    let len = v.len();
                    let lo = (sc.a as usize * (len + 1)) >> 8;
                    let hi = lo + (((sc.b as usize) * (len - lo + 1)) >> 8);
                    let mut sp = v.splice(lo..hi, TokIter { vals: extra.clone().into_iter(), next_id: 1000, exact: sc.c & 0x80 == 0 });
                    if sc.c & 1 == 1 {
                        if let Some(x) = sp.next() {
                            let _u = ledger::enter_user();
                            held.push(x);
                        }
                    }
                    drop(sp);
                }
                _ => {
                    made = Some(BVec::from_iter_in(TokIter { vals: extra.clone().into_iter(), next_id: 1000, exact: sc.b & 1 == 0 }, b));
                }
            }))
        };
        cb_reset(u32::MAX, 0);
        let what = format!("{} on values without a destructor ({})", SCEN_NAMES.get(sc.scen as usize).copied().unwrap_or("operation"), if res.is_err() { "callback panicked" } else { "no panic" });
        let mut seen = std::collections::HashSet::new();
        for x in v.iter().chain(held.iter()).chain(made.iter().flat_map(|w| w.iter())) {
            if !seen.insert(x.id) {
                viol.push(format!("{what}: value #{} (payload {}) is reachable twice: a value that was moved is still reachable through the container", x.id, x.val));
            }
        }
        let _g = enter_arena(1);
        drop(v);
        drop(made);
    }
    let _g = enter_arena(1);
    drop(bump);
}

/// keep the current panic point but do nothing else (used where a value is built inside the closure)
fn cb_reset_keep() {}

pub struct C16Engine {
    known: Vec<String>,
}
impl C16Engine {
    pub fn new() -> Self {
        C16Engine { known: known_sigs_for("C16") }
    }
}

impl Engine for C16Engine {
    fn prop(&self) -> &'static str {
        "C16"
    }
    fn fuzz(&self) -> Option<FuzzSpec> {
        Some(FuzzSpec { target: "fz_misc", max_len: 64, target_prefix: vec![1], engine_prefix: vec![] })
    }
    fn level(&self) -> &'static str {
        "fault_enumeration"
    }
    fn strategy(&self, _tier: Tier) -> BoxedStrategy<Vec<u8>> {
        (0u8..NSCEN, 0u8..9, any::<u8>(), any::<u8>(), any::<u8>(), any::<u8>(), proptest::collection::vec(0u8..6, 9))
            .prop_map(|(s, n, a, b, c, f, pre)| {
                let mut v = vec![s, n, a, b, c, f];
                v.extend(pre);
                v
            })
            .boxed()
    }
    fn run(&self, bytes: &[u8]) -> CaseOut {
        let sc = decode(bytes);
        let mut out = CaseOut { hash: fnv(bytes), ..Default::default() };
        let mut fired = 0u32;
        let mut fired_after_move = 0u32;
        let mut excluded = 0u32;
        let mut total_points = 0u32;
        for family in [0u8, 0x40] {
        let fname = if family == 0 { "callback" } else { "destructor" };
        let dry = run_scenario_family(&sc, u32::MAX, family);
        for m in dry.viol.iter() {
            if family == 0 {
                out.viol.push(format!("without any panic: {m}"));
            }
        }
        let n = dry.callbacks.min(64);
        total_points += n;
        for k in 0..n {
            let r = run_scenario_family(&sc, k, family);
            if r.panicked {
                fired += 1;
                if r.moved_before_panic {
                    fired_after_move += 1;
                }
            }
            if !r.viol.is_empty() {
                match r.known {
                    Some(sig) if self.known.iter().any(|s| s == sig) => {
                        excluded += 1;
                        out.known.push(sig.to_string());
                    }
                    _ => {
                        for m in r.viol.iter().take(3) {
                            if out.viol.len() < 8 {
                                out.viol.push(format!("panic at {fname} invocation #{k} of {n}: {m}"));
                            }
                        }
                    }
                }
            }
        }
        }
        out.nontrivial = fired_after_move > 0;
        out.stats = vec![1, total_points, fired, fired_after_move, excluded, destructor_family(sc.scen) as u32];
        out
    }
    fn describe(&self, bytes: &[u8]) -> Value {
        let sc = decode(bytes);
        json!({"operation": SCEN_NAMES[sc.scen as usize], "pre_state_payloads": sc.pre, "args": [sc.a, sc.b, sc.c], "follow_up": if sc.follow & 1 == 0 { "keep using the container, then drop it and the arena" } else { "drop the container and the arena" },
               "pre_state_has_dropped_values_in_spare_capacity": sc.follow & 2 != 0, "note": "for each of the two families (callbacks; destructors): dry-run to count the invocations n, then one run per k < n in which the k-th invocation panics once"})
    }
    fn stat_names(&self) -> Vec<&'static str> {
        vec!["scenarios", "panic_points_enumerated", "panics_fired", "panics_fired_after_elements_moved", "runs_excluded_as_known_findings", "destructor_family_scenarios"]
    }
    fn cases(&self, tier: Tier) -> u32 {
        match tier {
            Tier::Quick => 5000,
            Tier::Thorough => 60000,
        }
    }
    fn rule(&self) -> String {
        "cases are proptest-generated scenarios (one of 33 callback-taking operations of Vec/String/Box/arena slices, a pre-state of 0-8 elements with observable destructors, arguments, a follow-up); each is dry-run twice to count its callback (predicate/key/Clone/PartialEq/iterator/initialiser) invocations and its destructor invocations, and re-run for every index k of either family with that invocation panicking once, followed by continued use or drop of the container and finally of the arena. Oracle after unwinding and again after the follow-up: no value dropped twice, nothing reachable through the container twice or after its destructor ran, nothing handed to the caller still reachable, String bytes valid UTF-8, the arena still allocates; leaks are allowed. non-trivial = a run whose panic fired after at least one callback had completed (elements already moved/compared); distinct = distinct scenario bytes".into()
    }
    fn assumptions(&self) -> Vec<String> {
        vec!["panic-once: the injected panic fires at exactly one invocation, so no double panic/abort is provoked".into(), "element types are heap-free, so a double drop is observed as a counter reaching 2 rather than as memory corruption".into()]
    }
}
