//! Arena interpreter operations, part 2: typed values, fallible initialisers, slices and strings.

use crate::ledger::{enter_arena, enter_user, EvKind};
use crate::ops::*;
use crate::sim::*;
use crate::types::*;
use bumpalo::{AllocOrInitError, Bump};
use std::alloc::Layout;
use std::cell::Cell;

struct LogIter<'a, T: Word> {
    id: u32,
    i: usize,
    len: usize,
    /// items the iterator would yield beyond the `len` its ExactSizeIterator impl reports (a safe trait may lie):
    /// the arena must take exactly `len` of them
    extra: usize,
    log: &'a Cell<usize>,
    ordered: &'a Cell<bool>,
    _t: std::marker::PhantomData<T>,
}
impl<'a, T: Word> Iterator for LogIter<'a, T> {
    type Item = T;
    fn next(&mut self) -> Option<T> {
        let _u = enter_user();
        if self.i >= self.len + self.extra {
            return None;
        }
        if self.log.get() != self.i {
            self.ordered.set(false);
        }
        self.log.set(self.i + 1);
        let v = T::from_pat(self.id, self.i);
        self.i += 1;
        Some(v)
    }
    fn size_hint(&self) -> (usize, Option<usize>) {
        (self.len.saturating_sub(self.i), Some(self.len.saturating_sub(self.i)))
    }
}
impl<'a, T: Word> ExactSizeIterator for LogIter<'a, T> {}

/// exact-size iterator driven by a closure (used when the items are produced by an initialiser that itself allocates in the arena)
struct FnIt<'f, X> {
    i: usize,
    len: usize,
    f: &'f mut dyn FnMut(usize) -> X,
}
impl<'f, X> Iterator for FnIt<'f, X> {
    type Item = X;
    fn next(&mut self) -> Option<X> {
        if self.i >= self.len {
            return None;
        }
        self.i += 1;
        Some((self.f)(self.i - 1))
    }
    fn size_hint(&self) -> (usize, Option<usize>) {
        (self.len.saturating_sub(self.i), Some(self.len.saturating_sub(self.i)))
    }
}
impl<'f, X> ExactSizeIterator for FnIt<'f, X> {}

/// blocks a slice initialiser allocated in the arena and kept (published to the caller) while the slice was being filled
pub const MAX_NESTED: usize = 6;
#[derive(Default)]
struct Nested {
    kept: Cell<[usize; MAX_NESTED]>,
    n: Cell<usize>,
}
impl Nested {
    /// called from inside an initialiser (user mode): element `i` allocates `inner` in the same arena and keeps or releases it
    fn run<const M: usize>(&self, b: &Bump<M>, aid: u32, behaviour: u8, inner: Layout, i: usize) {
        if behaviour == 0 || i % 4 != 1 || self.n.get() >= MAX_NESTED {
            return;
        }
        let _g = enter_arena(aid);
        if let Ok(p) = b.try_alloc_layout(inner) {
            if behaviour == 1 {
                let mut k = self.kept.get();
                k[self.n.get()] = p.as_ptr() as usize;
                self.kept.set(k);
                self.n.set(self.n.get() + 1);
            } else {
                use allocator_api2::alloc::Allocator;
                unsafe { b.deallocate(p, inner) };
            }
        }
    }
}

impl<const M: usize> Sim<M> {
    // -----------------------------------------------------------------------------------------
    // typed values: alloc / try_alloc / alloc_with / try_alloc_with

    fn typed<T: PatVal>(&mut self, flavour: u8) {
        let l = Layout::new::<T>();
        let fallible = self.fallible(flavour & 1 == 1);
        let with = flavour & 2 != 0;
        self.note_align_stats(l.size(), l.align());
        let pre = self.pre(Some(l), fallible);
        let id = self.fresh_id();
        let what = match (with, fallible) {
            (false, false) => "alloc",
            (false, true) => "try_alloc",
            (true, false) => "alloc_with",
            (true, true) => "try_alloc_with",
        };
        let calls = Cell::new(0u32);
        let res = self.call(|b| {
            let mk = || {
                let _u = enter_user();
                calls.set(calls.get() + 1);
                T::make(id)
            };
            let r: Option<&mut T> = match (with, fallible) {
                (false, false) => Some(b.alloc(T::make(id))),
                (false, true) => b.try_alloc(T::make(id)).ok(),
                (true, false) => Some(b.alloc_with(mk)),
                (true, true) => b.try_alloc_with(mk).ok(),
            };
            r.map(|r| r as *mut T as usize)
        });
        let (outcome, p) = self.post_call(OpKind::Alloc, what, res, pre);
        if with {
            let c = calls.get();
            if outcome == OUT_OK && c != 1 {
                self.v("C02", format!("{what}: the initialiser was called {c} times"));
            }
            if outcome != OUT_OK && c != 0 {
                self.v("C11", format!("{what}: space could not be reserved but the initialiser ran {c} times"));
            }
        }
        if let Some(p) = p {
            if self.check_new_block(what, p, l.size(), l.align(), None) {
                let got = unsafe { (*(p as *const T)).bytes() };
                if let Some(j) = (0..T::N).find(|&j| got[j] != pat(id, j)) {
                    self.v("C02", format!("{what}: value of {} bytes reads back differently at byte {j}", T::N));
                }
                unsafe { write_pat(id, p as *mut u8, l.size()) };
                self.blocks.push(SBlock { id, ptr: p, size: l.size(), align: l.align(), freeable: true, slot: p, slot_size: l.size(), kept: false });
                if self.blocks.iter().filter(|b| b.size > 0).count() >= 2 {
                    self.st(St::Live2);
                }
            }
        }
        self.finish_step(OpKind::Alloc, what, pre, outcome, p.unwrap_or(0), l.size());
    }

    pub fn op_typed(&mut self, op: Op) {
        let f = op.a;
        if let Some(u) = self.opts.uniform {
            match (u, op.b % 3) {
                (1, 0) => self.typed::<A1<1>>(f),
                (1, 1) => self.typed::<A1<3>>(f),
                (1, _) => self.typed::<A1<13>>(f),
                (2, 0) => self.typed::<A2<2>>(f),
                (2, _) => self.typed::<A2<6>>(f),
                (4, 0) => self.typed::<A4<4>>(f),
                (4, _) => self.typed::<A4<20>>(f),
                (8, 0) => self.typed::<A8<8>>(f),
                (8, _) => self.typed::<A8<40>>(f),
                (_, 0) => self.typed::<A16<16>>(f),
                (_, _) => self.typed::<A16<48>>(f),
            }
            return;
        }
        match op.b % 20 {
            0 => self.typed::<A1<1>>(f),
            1 => self.typed::<A1<0>>(f),
            2 => self.typed::<A1<3>>(f),
            3 => self.typed::<A1<13>>(f),
            4 => self.typed::<A2<2>>(f),
            5 => self.typed::<A2<6>>(f),
            6 => self.typed::<A4<4>>(f),
            7 => self.typed::<A4<20>>(f),
            8 => self.typed::<A8<8>>(f),
            9 => self.typed::<A8<40>>(f),
            10 => self.typed::<A16<16>>(f),
            11 => self.typed::<A16<100>>(f),
            12 => self.typed::<A32<32>>(f),
            13 => self.typed::<A64<64>>(f),
            14 => self.typed::<A1<257>>(f),
            15 => self.typed::<A8<1000>>(f),
            16 => self.typed::<A16<0>>(f),
            17 => self.typed::<A64<0>>(f),
            18 => self.typed::<A1<5000>>(f),
            _ => self.typed::<A4<33>>(f),
        }
    }

    // -----------------------------------------------------------------------------------------
    // alloc_try_with / try_alloc_try_with

    fn try_with<T: PatVal, E: Tok>(&mut self, op: Op) {
        let rl = Layout::new::<Result<T, E>>();
        let tl = Layout::new::<T>();
        let fallible = self.fallible(op.a & 1 == 1);
        let want_ok = op.a & 2 != 0;
        // 0: initialiser allocates nothing, 1: allocates and keeps, 2: allocates and releases
        let behaviour = if self.opts.uniform.is_some() { 0 } else { (op.a >> 2) % 4 % 3 };
        let inner = Layout::from_size_align(1 + (op.c as usize % 48), 1usize << (op.c >> 6)).unwrap();
        self.note_align_stats(rl.size(), rl.align());
        let mut pre = self.pre(Some(rl), fallible);
        if behaviour != 0 {
            // the initialiser's own request may legitimately need a new chunk
            pre.fits = false;
        }
        let id = self.fresh_id();
        let eid = tok_new();
        let what = if fallible { "try_alloc_try_with" } else { "alloc_try_with" };
        let calls = Cell::new(0u32);
        let kept = Cell::new(0usize);
        let aid = self.id;
        // outcome of the call: 0 = Ok(ptr), 1 = Init error delivered, 2 = reservation failed
        let res = self.call(|b| {
            let init = || -> Result<T, E> {
                let _u = enter_user();
                calls.set(calls.get() + 1);
                if behaviour != 0 {
                    let _g = enter_arena(aid);
                    if let Ok(p) = b.try_alloc_layout(inner) {
                        if behaviour == 1 {
                            kept.set(p.as_ptr() as usize);
                        } else {
                            use allocator_api2::alloc::Allocator;
                            unsafe { b.deallocate(p, inner) };
                        }
                    }
                }
                if want_ok {
                    Ok(T::make(id))
                } else {
                    Err(E::new(eid))
                }
            };
            if fallible {
                match b.try_alloc_try_with(init) {
                    Ok(r) => (0u8, r as *mut T as usize, None),
                    Err(AllocOrInitError::Init(e)) => (1, 0, Some(e)),
                    Err(AllocOrInitError::Alloc(_)) => (2, 0, None),
                }
            } else {
                match b.alloc_try_with(init) {
                    Ok(r) => (0u8, r as *mut T as usize, None),
                    Err(e) => (1, 0, Some(e)),
                }
            }
        });
        // normalise to the common shape: reservation failure = Ok(None)/panic; init error is a *successful* reservation
        let mut delivered: Option<E> = None;
        let mut init_err = false;
        let res2: Result<Option<usize>, String> = match res {
            Err(m) => Err(m),
            Ok((0, p, _)) => Ok(Some(p)),
            Ok((1, _, e)) => {
                delivered = e;
                init_err = true;
                Ok(Some(0))
            }
            Ok(_) => Ok(None),
        };
        // an init error is not an allocation failure: run the generic classification with fits=false semantics
        let (outcome, p) = self.post_call(OpKind::Alloc, what, res2, pre);
        let acquired = self.step_events.iter().any(|e| e.0 == EvKind::Alloc as u8);
        let c = calls.get();
        if outcome != OUT_OK && c != 0 {
            self.v("C11", format!("{what}: space could not be reserved but the initialiser ran {c} times"));
        }
        if outcome == OUT_OK && c != 1 {
            self.v("C11", format!("{what}: the initialiser ran {c} times"));
        }
        let k = kept.get();
        if k != 0 {
            self.st(St::InitKept);
            let kid = self.register("block kept by the initialiser", k, inner.size(), inner.align(), true, None);
            if let Some(b) = self.blocks.iter_mut().find(|b| b.id == kid) {
                b.kept = true;
            }
        }
        let mut ptr = 0;
        if init_err {
            self.st(St::InitErr);
            match delivered {
                None => self.v("C11", format!("{what}: initialiser failed but no error value was delivered")),
                Some(e) => {
                    if e.id() != eid {
                        self.v("C11", format!("{what}: delivered error value has identity {} instead of {eid}", e.id()));
                    }
                    let before = tok_drops(eid);
                    if before != 0 {
                        self.v("C11", format!("{what}: the error value was already dropped {before} time(s) inside the arena before being delivered"));
                    }
                    drop(e);
                    let after = tok_drops(eid);
                    if after != before + 1 {
                        self.v("C11", format!("{what}: dropping the delivered error value ran its destructor {} times", after - before));
                    }
                }
            }
            if acquired {
                self.st(St::RewindNewChunk);
            } else {
                self.st(St::RewindSame);
            }
            self.observe(OpKind::Alloc);
            // (only every other time: the probe itself occupies the slot again, and histories in which the
            // failed slot stays empty - e.g. a reset right after it - must be reachable too)
            if behaviour == 0 && op.a & 0x80 == 0 {
                // the reserved space must be reusable: same layout, no global-allocator traffic
                let pre2 = self.pre(Some(rl), true);
                let r = self.call(|b| b.try_alloc_layout(rl).ok().map(|p| p.as_ptr() as usize));
                let (o2, p2) = self.post_call(OpKind::Alloc, "request of the same layout after a failed initialiser", r, pre2);
                if o2 != OUT_OK || !self.step_events.is_empty() {
                    let m = format!(
                        "{what}: initialiser allocated nothing and failed (slot size {}, align {}, {}), but the next request of the same layout {}",
                        rl.size(),
                        rl.align(),
                        if acquired { "slot had forced a new chunk" } else { "slot was in the current chunk" },
                        if o2 != OUT_OK { "failed".to_string() } else { format!("needed the global allocator ({} events)", self.step_events.len()) }
                    );
                    self.v("C11", m);
                }
                if let Some(p2) = p2 {
                    self.register("reuse after failed initialiser", p2, rl.size(), rl.align(), true, None);
                }
            }
        } else if let Some(p) = p {
            ptr = p;
            // offset of T inside the Result slot
            let probe: Result<T, E> = Ok(T::make(0));
            let off = match &probe {
                Ok(t) => t as *const T as usize - &probe as *const _ as usize,
                Err(_) => 0,
            };
            std::mem::forget(probe);
            let slot = p - off;
            if slot % rl.align().max(M) != 0 {
                self.v("C04", format!("{what}: the reserved Result slot {slot:#x} is not aligned to max({}, MIN_ALIGN {M})", rl.align()));
            }
            if self.check_new_block_ex(what, p, tl.size(), tl.align(), None, false) {
                let got = unsafe { (*(p as *const T)).bytes() };
                if let Some(j) = (0..T::N).find(|&j| got[j] != pat(id, j)) {
                    self.v("C02", format!("{what}: value of {} bytes reads back differently at byte {j}", T::N));
                }
                unsafe { write_pat(id, p as *mut u8, tl.size()) };
                self.blocks.push(SBlock { id, ptr: p, size: tl.size(), align: tl.align(), freeable: false, slot: p - off, slot_size: rl.size(), kept: false });
            }
        }
        if !init_err && !want_ok && outcome == OUT_OK {
            self.v("C11", format!("{what}: initialiser returned Err but the call returned Ok"));
        }
        if outcome != OUT_OK || delivered_none_guard(init_err) {
            // the token was never handed to bumpalo (initialiser not run) or already dropped above
        }
        self.finish_step(OpKind::Alloc, what, pre, if init_err { OUT_ERR + 3 } else { outcome }, ptr, tl.size());
    }

    pub fn op_try_with(&mut self, op: Op) {
        if let Some(u) = self.opts.uniform {
            match u {
                1 => self.try_with::<A1<4>, Et1>(op),
                2 => self.try_with::<A2<6>, Et2>(op),
                4 => self.try_with::<A4<12>, Et4>(op),
                8 => self.try_with::<A8<8>, Et8>(op),
                _ => self.try_with::<A16<16>, Et16>(op),
            }
            return;
        }
        match op.b % 12 {
            0 => self.try_with::<A1<1>, ErrTok<0>>(op),
            1 => self.try_with::<A4<4>, ErrTok<0>>(op),
            2 => self.try_with::<A8<24>, ErrTok<28>>(op),
            3 => self.try_with::<A16<16>, ErrTok<0>>(op),
            4 => self.try_with::<A1<0>, ErrTok<0>>(op),
            5 => self.try_with::<A8<1000>, ErrTok<200>>(op),
            6 => self.try_with::<A1<3>, Et1>(op),
            7 => self.try_with::<A4<400>, Et32>(op),
            8 => self.try_with::<A64<64>, ErrTok<28>>(op),
            9 => self.try_with::<A1<0>, Et1>(op),
            10 => self.try_with::<A2<446>, Et2>(op),
            _ => self.try_with::<A16<4000>, Et16>(op),
        }
    }

    // -----------------------------------------------------------------------------------------
    // slices

    fn slice_words<T: Word>(&mut self, op: Op, len: usize) {
        let fallible = self.fallible(op.a & 1 == 1);
        let mut flavour = (op.a >> 1) % 4; // 0 copy, 1 fill_with, 2 fill_copy, 3 fill_iter
        if flavour == 0 && len.saturating_mul(std::mem::size_of::<T>()) > (4 << 20) {
            flavour = 1; // do not build a gigantic source slice; such requests are refused anyway
        }
        let Ok(l) = Layout::array::<T>(len) else {
            self.push_trace(OUT_SKIP, 0, 0);
            return;
        };
        if self.too_big(l.size()) {
            self.push_trace(OUT_SKIP, 0, 0);
            return;
        }
        self.note_align_stats(l.size(), l.align());
        // fill_with / fill_iter initialisers that allocate in the same arena: 0 nothing, 1 allocate and keep, 2 allocate and release
        let behaviour: u8 = if self.opts.uniform.is_some() || !(flavour == 1 || flavour == 3) || len > 4096 { 0 } else { match op.a >> 6 { 2 => 1, 3 => 2, _ => 0 } };
        let inner = Layout::from_size_align(1 + (op.b as usize % 40), 1usize << (op.c & 3)).unwrap();
        let nested = Nested::default();
        let aid = self.id;
        let mut pre = self.pre(Some(l), fallible);
        if behaviour != 0 {
            pre.fits = false; // the initialiser's own requests may legitimately need a new chunk
        }
        let id = self.fresh_id();
        let what = match (flavour, fallible) {
            (0, false) => "alloc_slice_copy",
            (0, true) => "try_alloc_slice_copy",
            (1, false) => "alloc_slice_fill_with",
            (1, true) => "try_alloc_slice_fill_with",
            (2, false) => "alloc_slice_fill_copy",
            (2, true) => "try_alloc_slice_fill_copy",
            (_, false) => "alloc_slice_fill_iter",
            (_, true) => "try_alloc_slice_fill_iter",
        };
        let src: Vec<T> = if flavour == 0 { (0..len).map(|i| T::from_pat(id, i)).collect() } else { Vec::new() };
        // one fill_iter in four is driven by an iterator that has more items than its len() admits
        let extra = if flavour == 3 && behaviour == 0 && op.a & 0x30 == 0x30 { 1 + (op.b % 7) as usize } else { 0 };
        let fillv = T::from_pat(id, 7);
        let next = Cell::new(0usize);
        let ordered = Cell::new(true);
        let res = self.call(|b| {
            let mut f = |i: usize| {
                let _u = enter_user();
                if next.get() != i {
                    ordered.set(false);
                }
                next.set(i + 1);
                nested.run(b, aid, behaviour, inner, i);
                T::from_pat(id, i)
            };
            let r: Option<&mut [T]> = match (flavour, fallible) {
                (0, false) => Some(b.alloc_slice_copy(&src)),
                (0, true) => b.try_alloc_slice_copy(&src).ok(),
                (1, false) => Some(b.alloc_slice_fill_with(len, f)),
                (1, true) => b.try_alloc_slice_fill_with(len, f).ok(),
                (2, false) => Some(b.alloc_slice_fill_copy(len, fillv)),
                (2, true) => b.try_alloc_slice_fill_copy(len, fillv).ok(),
                (_, false) if behaviour != 0 => Some(b.alloc_slice_fill_iter(FnIt { i: 0, len, f: &mut f })),
                (_, true) if behaviour != 0 => b.try_alloc_slice_fill_iter(FnIt { i: 0, len, f: &mut f }).ok(),
                (_, false) => Some(b.alloc_slice_fill_iter(LogIter::<T> { id, i: 0, len, extra, log: &next, ordered: &ordered, _t: Default::default() })),
                (_, true) => b.try_alloc_slice_fill_iter(LogIter::<T> { id, i: 0, len, extra, log: &next, ordered: &ordered, _t: Default::default() }).ok(),
            };
            r.map(|s| (s.as_mut_ptr() as usize, s.len()))
        });
        let (outcome, r) = self.post_call(OpKind::Alloc, what, res, pre);
        if flavour == 1 || flavour == 3 {
            if outcome == OUT_OK && (next.get() != len || !ordered.get()) {
                self.v("C02", format!("{what}(len {len}): the closure/iterator was driven {} times, in index order: {}", next.get(), ordered.get()));
            }
            if outcome != OUT_OK && next.get() != 0 {
                self.v("C11", format!("{what}: space could not be reserved but the initialiser ran {} times", next.get()));
            }
        }
        // what the initialiser allocated and kept is live from now on (registered first, so that the slice is checked against it)
        for j in 0..nested.n.get() {
            self.st(St::InitKept);
            self.register("block kept by a slice initialiser", nested.kept.get()[j], inner.size(), inner.align(), true, None);
        }
        let mut ptr = 0;
        if let Some((p, n)) = r {
            ptr = p;
            if n != len {
                self.v("C01", format!("{what}: returned a slice of {n} elements for a request of {len}"));
            }
            if self.check_new_block(what, p, l.size(), l.align(), None) {
                let got = unsafe { std::slice::from_raw_parts(p as *const T, len) };
                let bad = if flavour == 2 { got.iter().position(|x| *x != fillv) } else { (0..len).find(|&i| got[i] != T::from_pat(id, i)) };
                if let Some(j) = bad {
                    self.v("C02", format!("{what}(len {len}): element {j} reads back differently from what was supplied"));
                }
                unsafe { write_pat(id, p as *mut u8, l.size()) };
                self.add_block(id, p, l.size(), l.align(), true);
            }
        }
        self.finish_step(OpKind::Alloc, what, pre, outcome, ptr, l.size());
    }

    fn slice_clone_default(&mut self, op: Op, len: usize) {
        let fallible = self.fallible(op.a & 1 == 1);
        let mut flavour = (op.a >> 1) % 3; // 0 clone, 1 fill_clone, 2 fill_default
        if flavour == 0 && len > (1 << 20) {
            flavour = 1;
        }
        let l = if flavour == 2 { Layout::array::<Df>(len) } else { Layout::array::<Cl>(len) };
        let Ok(l) = l else {
            self.push_trace(OUT_SKIP, 0, 0);
            return;
        };
        if self.too_big(l.size()) {
            self.push_trace(OUT_SKIP, 0, 0);
            return;
        }
        self.note_align_stats(l.size(), l.align());
        let pre = self.pre(Some(l), fallible);
        let id = self.fresh_id();
        let what = match (flavour, fallible) {
            (0, false) => "alloc_slice_clone",
            (0, true) => "try_alloc_slice_clone",
            (1, false) => "alloc_slice_fill_clone",
            (1, true) => "try_alloc_slice_fill_clone",
            (_, false) => "alloc_slice_fill_default",
            (_, true) => "try_alloc_slice_fill_default",
        };
        let src: Vec<Cl> = if flavour == 0 { (0..len).map(|i| Cl(u32::from_pat(id, i))).collect() } else { Vec::new() };
        let one = Cl(0xC10E_0000 | id);
        calls_reset();
        let res = self.call(|b| match (flavour, fallible) {
            (0, false) => Some(b.alloc_slice_clone(&src).as_mut_ptr() as usize),
            (0, true) => b.try_alloc_slice_clone(&src).ok().map(|s| s.as_mut_ptr() as usize),
            (1, false) => Some(b.alloc_slice_fill_clone(len, &one).as_mut_ptr() as usize),
            (1, true) => b.try_alloc_slice_fill_clone(len, &one).ok().map(|s| s.as_mut_ptr() as usize),
            (_, false) => Some(b.alloc_slice_fill_default::<Df>(len).as_mut_ptr() as usize),
            (_, true) => b.try_alloc_slice_fill_default::<Df>(len).ok().map(|s| s.as_mut_ptr() as usize),
        });
        let (outcome, p) = self.post_call(OpKind::Alloc, what, res, pre);
        let c = calls() as usize;
        if outcome == OUT_OK && c != len {
            self.v("C02", format!("{what}(len {len}): Clone/Default was called {c} times"));
        }
        if outcome != OUT_OK && c != 0 {
            self.v("C11", format!("{what}: space could not be reserved but Clone/Default ran {c} times"));
        }
        if let Some(p) = p {
            if self.check_new_block(what, p, l.size(), l.align(), None) {
                let bad = match flavour {
                    0 => {
                        let got = unsafe { std::slice::from_raw_parts(p as *const Cl, len) };
                        (0..len).find(|&i| got[i] != src[i])
                    }
                    1 => {
                        let got = unsafe { std::slice::from_raw_parts(p as *const Cl, len) };
                        got.iter().position(|x| *x != one)
                    }
                    _ => {
                        let got = unsafe { std::slice::from_raw_parts(p as *const Df, len) };
                        got.iter().position(|x| *x != Df::default_value())
                    }
                };
                if let Some(j) = bad {
                    self.v("C02", format!("{what}(len {len}): element {j} reads back differently from what was supplied"));
                }
                unsafe { write_pat(id, p as *mut u8, l.size()) };
                self.add_block(id, p, l.size(), l.align(), true);
            }
        }
        self.finish_step(OpKind::Alloc, what, pre, outcome, p.unwrap_or(0), l.size());
    }

    /// zero-sized elements: no memory, but the initialisers still have to run once per element, in order
    fn slice_zst<Z: Clone + Default + 'static>(&mut self, op: Op, len: usize, mk: fn() -> Z) {
        let fallible = self.fallible(op.a & 1 == 1);
        let flavour = (op.a >> 1) % 5; // 0 fill_with, 1 fill_iter, 2 fill_clone, 3 fill_default, 4 clone
        let l = Layout::array::<Z>(len).unwrap();
        self.note_align_stats(0, l.align());
        let pre = self.pre(Some(l), fallible);
        let what = ["alloc_slice_fill_with", "alloc_slice_fill_iter", "alloc_slice_fill_clone", "alloc_slice_fill_default", "alloc_slice_clone"][flavour as usize];
        let next = Cell::new(0usize);
        let ordered = Cell::new(true);
        calls_reset();
        let src: Vec<Z> = (0..len).map(|_| mk()).collect();
        let one = mk();
        calls_reset();
        struct ZIt<'a, Z> {
            i: usize,
            len: usize,
            next: &'a Cell<usize>,
            mk: fn() -> Z,
        }
        impl<'a, Z> Iterator for ZIt<'a, Z> {
            type Item = Z;
            fn next(&mut self) -> Option<Z> {
                let _u = enter_user();
                if self.i >= self.len {
                    return None;
                }
                self.i += 1;
                self.next.set(self.next.get() + 1);
                Some((self.mk)())
            }
            fn size_hint(&self) -> (usize, Option<usize>) {
                (self.len.saturating_sub(self.i), Some(self.len.saturating_sub(self.i)))
            }
        }
        impl<'a, Z> ExactSizeIterator for ZIt<'a, Z> {}
        let res = self.call(|b| {
            let f = |i: usize| {
                let _u = enter_user();
                if next.get() != i {
                    ordered.set(false);
                }
                next.set(i + 1);
                mk()
            };
            let r: Option<&mut [Z]> = match (flavour, fallible) {
                (0, false) => Some(b.alloc_slice_fill_with(len, f)),
                (0, true) => b.try_alloc_slice_fill_with(len, f).ok(),
                (1, false) => Some(b.alloc_slice_fill_iter(ZIt { i: 0, len, next: &next, mk })),
                (1, true) => b.try_alloc_slice_fill_iter(ZIt { i: 0, len, next: &next, mk }).ok(),
                (2, false) => Some(b.alloc_slice_fill_clone(len, &one)),
                (2, true) => b.try_alloc_slice_fill_clone(len, &one).ok(),
                (3, false) => Some(b.alloc_slice_fill_default::<Z>(len)),
                (3, true) => b.try_alloc_slice_fill_default::<Z>(len).ok(),
                (_, false) => Some(b.alloc_slice_clone(&src)),
                (_, true) => b.try_alloc_slice_clone(&src).ok(),
            };
            r.map(|s| (s.as_mut_ptr() as usize, s.len()))
        });
        let (outcome, r) = self.post_call(OpKind::Alloc, what, res, pre);
        if let Some((p, n)) = r {
            if n != len {
                self.v("C01", format!("{what}: returned a slice of {n} zero-sized elements for a request of {len}"));
            }
            self.check_new_block(what, p, 0, l.align(), None);
            let driven = if flavour <= 1 { next.get() } else { calls() as usize };
            if driven != len || !ordered.get() {
                self.v("C02", format!("{what} with {len} zero-sized elements (align {}): the closure / iterator / Clone / Default was driven {driven} times (in index order: {})", l.align(), ordered.get()));
            }
        }
        self.finish_step(OpKind::Alloc, what, pre, outcome, r.map_or(0, |x| x.0), 0);
    }

    pub fn op_slice(&mut self, op: Op) {
        let len = if op.b >= 250 { map_size(op.b, op.c) } else if op.b >= 200 { op.c as usize * 37 } else { op.c as usize };
        if let Some(u) = self.opts.uniform {
            match u {
                1 => self.slice_words::<u8>(op, len),
                2 => self.slice_words::<u16>(op, len),
                4 => self.slice_words::<u32>(op, len),
                8 => self.slice_words::<u64>(op, len),
                _ => self.slice_words::<u128>(op, len),
            }
            return;
        }
        if op.b % 16 == 15 && len <= 300 {
            if op.c & 1 == 0 {
                return self.slice_zst::<Zc1>(op, len, || Zc1);
            }
            return self.slice_zst::<Zc16>(op, len, || Zc16);
        }
        match op.b % 7 {
            0 => self.slice_words::<u8>(op, len),
            1 => self.slice_words::<u16>(op, len),
            2 => self.slice_words::<u32>(op, len),
            3 => self.slice_words::<u64>(op, len),
            4 => self.slice_words::<u128>(op, len),
            _ => self.slice_clone_default(op, len),
        }
    }

    // -----------------------------------------------------------------------------------------
    // alloc_slice_try_fill_with / alloc_slice_try_fill_iter

    fn try_fill<T: Word, E: Tok>(&mut self, op: Op) {
        // mostly short slices; one in eight is long enough to need a chunk (or several pages) of its own
        let len = if op.a & 0x38 == 0x38 { (op.c as usize) * 37 + (op.b as usize & 7) } else { (op.c as usize) % 80 };
        let fail_at = (op.b as usize * (len + 1)) >> 8; // == len means: no failure
        let use_iter = op.a & 1 == 1;
        let l = Layout::array::<T>(len).unwrap();
        self.note_align_stats(l.size(), l.align());
        let pre = self.pre(Some(l), false);
        let id = self.fresh_id();
        let eid = tok_new();
        let what = if use_iter { "alloc_slice_try_fill_iter" } else { "alloc_slice_try_fill_with" };
        let next = Cell::new(0usize);
        let ordered = Cell::new(true);
        let later_fail = op.a & 0x40 != 0;
        // initialisers that allocate in the same arena while the slice is being filled: 0 nothing, 1 allocate and keep, 2 allocate and release
        let behaviour: u8 = if self.opts.uniform.is_some() || len > 4096 { 0 } else { match (op.b.wrapping_mul(31) ^ op.c) % 5 { 3 => 1, 4 => 2, _ => 0 } };
        let inner = Layout::from_size_align(1 + (op.b as usize % 40), 1usize << (op.c & 3)).unwrap();
        let nested = Nested::default();
        let aid = self.id;
        let mut pre = pre;
        if behaviour != 0 {
            pre.fits = false;
        }
        let res = self.call(|b| {
            let mut f = |i: usize| -> Result<T, E> {
                let _u = enter_user();
                if next.get() != i {
                    ordered.set(false);
                }
                next.set(i + 1);
                nested.run(b, aid, behaviour, inner, i);
                if i == fail_at {
                    Err(E::new(eid))
                } else if i > fail_at && later_fail {
                    // asked again after it already failed: it fails again, with a different error value
                    Err(E::new(tok_new()))
                } else {
                    Ok(T::from_pat(id, i))
                }
            };
            let r = if use_iter {
                struct It<'f, T, E> {
                    i: usize,
                    len: usize,
                    f: &'f mut dyn FnMut(usize) -> Result<T, E>,
                }
                impl<'f, T, E> Iterator for It<'f, T, E> {
                    type Item = Result<T, E>;
                    fn next(&mut self) -> Option<Self::Item> {
                        if self.i >= self.len {
                            return None;
                        }
                        self.i += 1;
                        Some((self.f)(self.i - 1))
                    }
                    fn size_hint(&self) -> (usize, Option<usize>) {
                        (self.len.saturating_sub(self.i), Some(self.len.saturating_sub(self.i)))
                    }
                }
                impl<'f, T, E> ExactSizeIterator for It<'f, T, E> {}
                b.alloc_slice_try_fill_iter(It { i: 0, len, f: &mut f })
            } else {
                b.alloc_slice_try_fill_with(len, f)
            };
            match r {
                Ok(s) => (s.as_mut_ptr() as usize, None),
                Err(e) => (0usize, Some(e)),
            }
        });
        let mut delivered = None;
        let mut init_err = false;
        let res2: Result<Option<usize>, String> = match res {
            Err(m) => Err(m),
            Ok((p, None)) => Ok(Some(p)),
            Ok((_, Some(e))) => {
                delivered = Some(e);
                init_err = true;
                Ok(Some(0))
            }
        };
        let (outcome, p) = self.post_call(OpKind::Alloc, what, res2, pre);
        let acquired = self.step_events.iter().any(|e| e.0 == EvKind::Alloc as u8);
        if outcome != OUT_OK && next.get() != 0 {
            self.v("C11", format!("{what}: space could not be reserved but the initialiser ran {} times", next.get()));
        }
        // blocks the initialiser allocated and kept stay valid whether or not the fill failed
        for j in 0..nested.n.get() {
            self.st(St::InitKept);
            let kid = self.register("block kept by a slice initialiser", nested.kept.get()[j], inner.size(), inner.align(), true, None);
            if let Some(b) = self.blocks.iter_mut().find(|b| b.id == kid) {
                b.kept = true;
            }
        }
        let mut ptr = 0;
        if init_err {
            self.st(St::FillFail);
            if fail_at >= len {
                self.v("C11", format!("{what}: an error was reported although the initialiser never failed"));
            }
            if next.get() != fail_at + 1 || !ordered.get() {
                self.v("C02", format!("{what}(len {len}, failing at {fail_at}): initialiser driven {} times, in order: {}", next.get(), ordered.get()));
            }
            if next.get() > fail_at + 1 {
                self.v("C11", format!("{what}(len {len}, failing at {fail_at}): the initialiser was consulted {} more time(s) after it had reported its error", next.get() - fail_at - 1));
            }
            if let Some(e) = delivered {
                if e.id() != eid {
                    self.v("C11", format!("{what}: delivered error value has identity {} instead of {eid}", e.id()));
                }
                let before = tok_drops(eid);
                if before != 0 {
                    self.v("C11", format!("{what}: the error value was dropped {before} time(s) before being delivered"));
                }
                drop(e);
                if tok_drops(eid) != before + 1 {
                    self.v("C11", format!("{what}: dropping the delivered error ran its destructor {} times", tok_drops(eid) - before));
                }
            }
            if acquired {
                self.st(St::RewindNewChunk);
            } else {
                self.st(St::RewindSame);
            }
            self.observe(OpKind::Alloc);
            if behaviour == 0 && op.a & 0x80 == 0 {
                let pre2 = self.pre(Some(l), true);
                let r = self.call(|b| b.try_alloc_layout(l).ok().map(|p| p.as_ptr() as usize));
                let (o2, p2) = self.post_call(OpKind::Alloc, "request of the same layout after a failed slice fill", r, pre2);
                if o2 != OUT_OK || !self.step_events.is_empty() {
                    self.v("C11", format!("{what}(len {len}, failing at {fail_at}): the space reserved for the failed slice (size {}, align {}) was not reusable by the next request of the same layout", l.size(), l.align()));
                }
                if let Some(p2) = p2 {
                    self.register("reuse after failed slice fill", p2, l.size(), l.align(), true, None);
                }
            }
        } else if let Some(p) = p {
            ptr = p;
            if fail_at < len {
                self.v("C11", format!("{what}: initialiser failed at {fail_at} but the call returned Ok"));
            }
            if next.get() != len || !ordered.get() {
                self.v("C02", format!("{what}(len {len}): initialiser driven {} times, in order: {}", next.get(), ordered.get()));
            }
            if self.check_new_block(what, p, l.size(), l.align(), None) {
                let got = unsafe { std::slice::from_raw_parts(p as *const T, len) };
                if let Some(j) = (0..len).find(|&i| got[i] != T::from_pat(id, i)) {
                    self.v("C02", format!("{what}(len {len}): element {j} reads back differently"));
                }
                unsafe { write_pat(id, p as *mut u8, l.size()) };
                self.add_block(id, p, l.size(), l.align(), true);
            }
        }
        self.finish_step(OpKind::Alloc, what, pre, if init_err { OUT_ERR + 3 } else { outcome }, ptr, l.size());
    }

    pub fn op_slice_try_fill(&mut self, op: Op) {
        if let Some(u) = self.opts.uniform {
            match u {
                1 => self.try_fill::<u8, Et1>(op),
                2 => self.try_fill::<u16, Et2>(op),
                4 => self.try_fill::<u32, ErrTok<0>>(op),
                8 => self.try_fill::<u64, Et8>(op),
                _ => self.try_fill::<u128, Et16>(op),
            }
            return;
        }
        match (op.a >> 1) % 4 {
            0 => self.try_fill::<u32, ErrTok<0>>(op),
            1 => self.try_fill::<u64, ErrTok<28>>(op),
            2 => self.try_fill::<u8, Et32>(op),
            _ => self.try_fill::<u128, ErrTok<200>>(op),
        }
    }

    // -----------------------------------------------------------------------------------------

    pub fn op_str(&mut self, op: Op) {
        if self.opts.uniform.map_or(false, |u| u != 1) {
            self.push_trace(OUT_SKIP, 0, 0);
            return;
        }
        if op.a & 0xC0 == 0xC0 && M == 1 && self.opts.uniform.is_none() {
            return self.op_collection_handoff(op);
        }
        let fallible = self.fallible(op.a & 1 == 1);
        let len = if op.b >= 240 { op.c as usize * 29 } else { op.c as usize };
        let l = Layout::array::<u8>(len).unwrap();
        let id = self.fresh_id();
        let text: String = (0..len).map(|j| (b'a' + pat(id, j) % 26) as char).collect();
        self.note_align_stats(len, 1);
        let pre = self.pre(Some(l), fallible);
        let what = if fallible { "try_alloc_str" } else { "alloc_str" };
        let res = self.call(|b| {
            let r: Option<&mut str> = if fallible { b.try_alloc_str(&text).ok() } else { Some(b.alloc_str(&text)) };
            r.map(|s| (s.as_mut_ptr() as usize, s.len()))
        });
        let (outcome, r) = self.post_call(OpKind::Alloc, what, res, pre);
        let mut ptr = 0;
        if let Some((p, n)) = r {
            ptr = p;
            if n != len {
                self.v("C01", format!("{what}: returned a str of {n} bytes for a source of {len}"));
            }
            if self.check_new_block(what, p, len, 1, None) {
                let got = unsafe { std::slice::from_raw_parts(p as *const u8, len) };
                if got != text.as_bytes() {
                    self.v("C02", format!("{what}(len {len}): text reads back differently"));
                }
                unsafe { write_pat(id, p as *mut u8, len) };
                self.add_block(id, p, len, 1, true);
            }
        }
        self.finish_step(OpKind::Alloc, what, pre, outcome, ptr, len);
    }
}

const NB_SIZE: usize = 24;

/// what a collection hand-off leaves in the arena: (address, element count)
/// `probe`: between reserving and filling, ask for far more room (which fails when a limit or fault plan is in the
/// way and must then change nothing) and make a small neighbour allocation; its address is reported through `nb`.
fn handoff<T: Copy + 'static>(b: &Bump<1>, elems: &[T], cap: usize, variant: u8, fallible: bool, probe: bool, nb: &Cell<usize>, splice: Option<(usize, usize, usize, usize)>) -> Option<(usize, usize)> {
    use bumpalo::boxed::Box as BBox;
    use bumpalo::collections::Vec as BVec;
    let mut v: BVec<T> = if fallible {
        let mut v = BVec::new_in(b);
        if v.try_reserve_exact(cap).is_err() {
            return None;
        }
        v
    } else {
        BVec::with_capacity_in(cap, b)
    };
    if probe {
        let _ = if variant & 1 == 0 { v.try_reserve_exact(48 << 10) } else { v.try_reserve(48 << 10) };
        if let Ok(p) = b.try_alloc_layout(Layout::from_size_align(NB_SIZE, 1).unwrap()) {
            unsafe { std::ptr::write_bytes(p.as_ptr(), 0x5a, NB_SIZE) };
            nb.set(p.as_ptr() as usize);
        }
    }
    v.extend_from_slice_copy(elems);
    if let Some((lo, hi, k1, k2)) = splice {
        // replace a middle range by an iterator whose size hint has a non-zero but inexact lower bound (an exact part
        // chained with a filtered one): the tail is moved twice and the buffer may have to grow in between
        let it = elems[..k1].iter().copied().chain(elems[..k2].iter().copied().enumerate().filter(|(j, _)| j % 2 == 0).map(|(_, x)| x));
        drop(v.splice(lo..hi, it));
    }
    Some(match variant {
        1 => {
            let s = v.into_bump_slice_mut();
            (s.as_mut_ptr() as usize, s.len())
        }
        2 => {
            let s = BBox::leak(v.into_boxed_slice());
            (s.as_mut_ptr() as usize, s.len())
        }
        3 => {
            let raw = BBox::into_raw(v.into_boxed_slice());
            (raw as *mut T as usize, unsafe { (&*raw).len() })
        }
        6 => {
            let n = v.len() / 2;
            v.truncate(n);
            let s = v.into_bump_slice();
            (s.as_ptr() as usize, s.len())
        }
        _ => {
            let s = v.into_bump_slice();
            (s.as_ptr() as usize, s.len())
        }
    })
}

fn handoff_str(b: &Bump<1>, text: &str, cap: usize, variant: u8, fallible: bool, lossy_src: Option<&[u8]>) -> Option<(usize, usize)> {
    use bumpalo::collections::{String as BString, Vec as BVec};
    let s: BString = if let Some(raw) = lossy_src {
        // decoded (and repaired) text placed in the arena by the lossy decoder
        BString::from_utf8_lossy_in(raw, b)
    } else if fallible {
        let mut v: BVec<u8> = BVec::new_in(b);
        if v.try_reserve_exact(cap).is_err() {
            return None;
        }
        v.extend_from_slice_copy(text.as_bytes());
        BString::from_utf8(v).ok()?
    } else {
        let mut s = BString::with_capacity_in(cap, b);
        s.push_str(text);
        s
    };
    Some(if variant == 5 {
        let r = s.into_bytes().into_bump_slice();
        (r.as_ptr() as usize, r.len())
    } else {
        let r = s.into_bump_str();
        (r.as_ptr() as usize, r.len())
    })
}

impl<const M: usize> Sim<M> {
    /// A collection or box built in the arena and then handed over to it (`into_bump_slice(_mut)`, `into_bump_str`,
    /// `into_bytes`, `into_boxed_slice` + `leak`/`into_raw`): what it leaves behind is a live block like any other
    /// (C01/C02: inside the arena, disjoint from later blocks, contents intact). Only for `Bump<1>`.
    pub fn op_collection_handoff(&mut self, op: Op) {
        // The collections report an allocation failure with a formatted panic message, which itself allocates from the
        // global allocator; that is ordinary Rust out-of-memory behaviour and outside the listed properties, so the
        // panicking route is only taken when the reservation cannot fail (no limit, no fault plan).
        let can_fail = self.limit.is_some() || crate::ledger::plan(self.id) != crate::ledger::Plan::None;
        let fallible = self.fallible(op.a & 1 == 1) || can_fail;
        let variant = (op.a >> 1) & 7;
        let esz: usize = match variant {
            4 | 5 => 1,
            _ => 1 << ((op.a >> 4) & 3),
        };
        let cap = if op.b >= 240 { op.c as usize * 13 } else { op.c as usize };
        // how full the collection is when it is handed over: empty, a quarter, under half, almost, exactly full
        let len = match op.b % 5 {
            0 => cap,
            1 => cap / 4,
            2 => cap.saturating_sub(1) / 2,
            3 => cap.saturating_sub(1),
            _ => cap.min(1),
        };
        let l = Layout::from_size_align(cap * esz, esz).unwrap();
        let id = self.fresh_id();
        let mut bytes = vec![0u8; len * esz];
        fill_pat(id, &mut bytes);
        let mut text: String = (0..len).map(|j| (b'a' + pat(id, j) % 26) as char).collect();
        // string variants, when nothing can fail: one in two goes through from_utf8_lossy_in on text damaged with lone
        // continuation / invalid / truncated-lead bytes; what must be handed over is what std's decoder produces
        let lossy_raw: Option<Vec<u8>> = if (variant == 4 || variant == 5) && !can_fail && op.b & 0x10 != 0 && len > 0 {
            let k = 2 + (op.c as usize % 5);
            let raw: Vec<u8> = text.bytes().enumerate().map(|(j, ch)| if j % k == 0 { [0xFFu8, 0x80, 0xC3, 0xE2, 0xF0][(op.c as usize / 5 + j) % 5] } else { ch }).collect();
            text = String::from_utf8_lossy(&raw).into_owned();
            Some(raw)
        } else {
            None
        };
        let len = if lossy_raw.is_some() { text.len() } else { len };
        // byte vectors, when nothing can fail: one in two is spliced in the middle before it is handed over
        let splice: Option<(usize, usize, usize, usize)> = if (variant == 0 || variant == 1) && esz == 1 && !can_fail && op.b & 0x08 != 0 && len >= 4 {
            let lo = 1 + (op.c as usize % (len - 2));
            let hi = (lo + (op.c as usize >> 4) % 3).min(len - 1);
            Some((lo, hi, 1 + (op.c as usize >> 2) % len.min(6), len.min(2 + (op.c as usize >> 1) % 12)))
        } else {
            None
        };
        let spliced: Option<Vec<u8>> = splice.map(|(lo, hi, k1, k2)| {
            let mut t = bytes.clone();
            let repl: Vec<u8> = bytes[..k1].iter().copied().chain(bytes[..k2].iter().copied().enumerate().filter(|(j, _)| j % 2 == 0).map(|(_, x)| x)).collect();
            t.splice(lo..hi, repl);
            t
        });
        // for a spliced vector the capacity is chosen tight: room for the filtered part of the replacement and for some,
        // all or none of the part announced by the size hint (the interesting boundary cases of the two tail moves)
        let cap = match splice {
            Some((lo, hi, k1, k2)) => {
                let lower = k1.saturating_sub(hi - lo);
                len + (k2 + 1) / 2 + (op.b as usize >> 5) % (lower + 2)
            }
            None => cap,
        };
        let len = spliced.as_ref().map_or(len, |t| t.len());
        let e16: Vec<u16> = if esz == 2 { bytes.chunks(2).map(|c| u16::from_ne_bytes([c[0], c[1]])).collect() } else { vec![] };
        let e32: Vec<u32> = if esz == 4 { bytes.chunks(4).map(|c| u32::from_ne_bytes([c[0], c[1], c[2], c[3]])).collect() } else { vec![] };
        let e64: Vec<u64> = if esz == 8 { bytes.chunks(8).map(|c| u64::from_ne_bytes([c[0], c[1], c[2], c[3], c[4], c[5], c[6], c[7]])).collect() } else { vec![] };
        self.note_align_stats(cap * esz, esz);
        let probe = can_fail && fallible && op.b & 0x20 != 0;
        let pre = self.pre(if cap > 0 && !probe && lossy_raw.is_none() && splice.is_none() { Some(l) } else { None }, fallible);
        let what: &'static str = match (variant, fallible) {
            (1, false) => "Vec::with_capacity_in + into_bump_slice_mut",
            (1, true) => "Vec::try_reserve_exact + into_bump_slice_mut",
            (2, false) => "Vec::with_capacity_in + into_boxed_slice + Box::leak",
            (2, true) => "Vec::try_reserve_exact + into_boxed_slice + Box::leak",
            (3, false) => "Vec::with_capacity_in + into_boxed_slice + Box::into_raw",
            (3, true) => "Vec::try_reserve_exact + into_boxed_slice + Box::into_raw",
            (4, false) if lossy_raw.is_some() => "String::from_utf8_lossy_in + into_bump_str",
            (5, false) if lossy_raw.is_some() => "String::from_utf8_lossy_in + into_bytes + into_bump_slice",
            (4, false) => "String::with_capacity_in + into_bump_str",
            (4, true) => "Vec::try_reserve_exact + String::from_utf8 + into_bump_str",
            (5, false) => "String::with_capacity_in + into_bytes + into_bump_slice",
            (5, true) => "Vec::try_reserve_exact + String::from_utf8 + into_bytes + into_bump_slice",
            (6, false) => "Vec::with_capacity_in + truncate + into_bump_slice",
            (6, true) => "Vec::try_reserve_exact + truncate + into_bump_slice",
            (_, false) => "Vec::with_capacity_in + into_bump_slice",
            (_, true) => "Vec::try_reserve_exact + into_bump_slice",
        };
        // under a limit or fault plan: a (probably failing) further reservation and a neighbour allocation in between
        let nb = Cell::new(0usize);
        let res = self.call(|b| {
            let b1: &Bump<1> = (b as &dyn std::any::Any).downcast_ref::<Bump<1>>().expect("M == 1");
            match (variant, esz) {
                (4, _) | (5, _) => handoff_str(b1, &text, cap, variant, fallible, lossy_raw.as_deref()),
                (_, 2) => handoff(b1, &e16, cap, variant, fallible, probe, &nb, None),
                (_, 4) => handoff(b1, &e32, cap, variant, fallible, probe, &nb, None),
                (_, 8) => handoff(b1, &e64, cap, variant, fallible, probe, &nb, None),
                _ => handoff(b1, &bytes, cap, variant, fallible, probe, &nb, splice),
            }
        });
        let (outcome, r) = self.post_call(OpKind::Alloc, what, res, pre);
        let mut ptr = 0;
        let mut got_len = 0;
        if nb.get() != 0 {
            // the neighbour allocated between the reservation and the fill is a live block of its own
            let p2 = nb.get();
            let id2 = self.fresh_id();
            if self.check_new_block("allocation made while a reserved vector was still empty", p2, NB_SIZE, 1, None) {
                let got = unsafe { std::slice::from_raw_parts(p2 as *const u8, NB_SIZE) };
                if got.iter().any(|x| *x != 0x5a) {
                    self.v("C02", format!("{what}: filling the vector within its reserved capacity changed a neighbouring live block"));
                }
                unsafe { write_pat(id2, p2 as *mut u8, NB_SIZE) };
                self.add_block(id2, p2, NB_SIZE, 1, false);
            }
        }
        if let Some((p, n)) = r {
            ptr = p;
            let want_n = if variant == 6 { len / 2 } else { len };
            if n != want_n {
                self.v("C02", format!("{what}: handed over {n} elements, the collection held {want_n}"));
            }
            let size = n.min(want_n) * esz;
            got_len = size;
            self.st(St::Handoff);
            if self.check_new_block(what, p, size, esz, None) {
                let got = unsafe { std::slice::from_raw_parts(p as *const u8, size) };
                let want: &[u8] = if variant == 4 || variant == 5 {
                    &text.as_bytes()[..size]
                } else if let Some(t) = spliced.as_ref() {
                    &t[..size]
                } else {
                    &bytes[..size]
                };
                if got != want {
                    self.v("C02", format!("{what}(capacity {cap}, {len} elements of {esz} bytes{}): the handed-over contents read back differently", if splice.is_some() { ", spliced before the hand-over" } else { "" }));
                }
                if variant == 4 || variant == 5 || splice.is_some() {
                    unsafe { write_pat(id, p as *mut u8, size) };
                }
                self.add_block(id, p, size, esz, false);
            }
        }
        if outcome == OUT_PANIC {
            // with_capacity_in failed before anything was allocated; the generic failure oracle applies
        }
        self.finish_step(OpKind::Alloc, what, pre, outcome, ptr, got_len);
    }
}

fn delivered_none_guard(_b: bool) -> bool {
    false
}

impl Df {
    pub fn default_value() -> Df {
        Df(0x0df0_0df0_0df0_0df0)
    }
}

#[allow(dead_code)]
fn _assert_bump_generic<const M: usize>(_b: &Bump<M>) {}


/// zero-sized elements whose Clone / Default are counted
pub struct Zc1;
impl Clone for Zc1 {
    fn clone(&self) -> Self {
        let _u = enter_user();
        calls_inc();
        Zc1
    }
}
impl Default for Zc1 {
    fn default() -> Self {
        let _u = enter_user();
        calls_inc();
        Zc1
    }
}
#[repr(align(16))]
pub struct Zc16;
impl Clone for Zc16 {
    fn clone(&self) -> Self {
        let _u = enter_user();
        calls_inc();
        Zc16
    }
}
impl Default for Zc16 {
    fn default() -> Self {
        let _u = enter_user();
        calls_inc();
        Zc16
    }
}
