//! The ledger: an instrumented global allocator (DESIGN §2.2).
//!
//! Every request made while the calling thread is in *arena mode* is a request made by bumpalo on
//! behalf of that arena: it is recorded, may be refused by a fault plan, is placed at a chosen
//! address residue, gets guard bands, and is quarantined (not reused) when freed until the case
//! ends. Everything else goes straight to the system allocator. The ledger itself never allocates
//! through the Rust global allocator.

use std::alloc::{GlobalAlloc, Layout, System};
use std::cell::Cell;
use std::sync::atomic::{AtomicBool, AtomicU32, AtomicUsize, Ordering};

pub const GUARD: usize = 64;
pub const MAX_ARENAS: usize = 16;
const NREC: usize = 4096;
const NEV: usize = 16384;
const GUARD_BYTE: u8 = 0xA5;
const FRESH_BYTE: u8 = 0xCD;
const FREED_BYTE: u8 = 0xDD;
const FILL_CAP: usize = 1 << 13;
pub const HARD_CAP: usize = 1 << 30;
pub const REFUSAL_BUDGET: u32 = 1000;

thread_local! {
    static CUR: Cell<u32> = const { Cell::new(0) };
}

#[inline]
pub fn cur_arena() -> u32 {
    CUR.with(|c| c.get())
}

pub struct ModeGuard(u32);
impl Drop for ModeGuard {
    fn drop(&mut self) {
        CUR.with(|c| c.set(self.0));
    }
}

/// Everything until the guard is dropped is bumpalo code working for arena `id` (1..MAX_ARENAS).
#[inline]
pub fn enter_arena(id: u32) -> ModeGuard {
    debug_assert!(id >= 1 && (id as usize) < MAX_ARENAS);
    let prev = CUR.with(|c| c.replace(id));
    if prev == 0 {
        // a fresh top-level call into bumpalo: reset the per-call refusal budget
        let mut st = lock();
        st.arenas[id as usize].refusals_in_call = 0;
    }
    ModeGuard(prev)
}

/// Harness (user) code: callbacks invoked by bumpalo start with this.
#[inline]
pub fn enter_user() -> ModeGuard {
    let prev = CUR.with(|c| c.replace(0));
    ModeGuard(prev)
}

/// Called by the panic hook: the panic machinery's own allocations are not bumpalo's.
pub fn on_panic() {
    CUR.with(|c| c.set(0));
}

#[derive(Clone, Copy, Debug, PartialEq, Eq)]
pub enum Plan {
    None,
    /// refuse exactly the k-th attributed request of this arena (0-based, refused ones count)
    FailKth(u32),
    /// refuse every request from the k-th on
    FailFrom(u32),
    /// refuse every request of at least this many bytes
    FailAtLeast(usize),
    /// refuse requests k1 <= k < k2
    Window(u32, u32),
    FailAll,
}

#[derive(Clone, Copy, Debug, PartialEq, Eq)]
pub enum Placement {
    /// base is aligned to exactly the requested alignment and nothing stronger
    Min,
    /// base is aligned to at least 8 KiB
    Max,
    /// residue derived from (case seed, arena, request index)
    Mix,
}

#[derive(Clone, Copy, Debug, PartialEq, Eq)]
pub enum EvKind {
    Alloc,
    Free,
    Refuse,
    /// a second free of a block already freed
    DoubleFree,
    /// free with a layout different from the one requested
    LayoutMismatch,
    /// free of an address strictly inside an attributed block
    InteriorFree,
    /// free of the static empty sentinel
    SentinelFree,
    /// more than REFUSAL_BUDGET refusals absorbed inside one bumpalo call
    Runaway,
}

#[derive(Clone, Copy, Debug)]
pub struct Event {
    pub kind: EvKind,
    /// arena the block belongs to (for Free: the arena that requested it)
    pub arena: u32,
    /// arena mode of the thread that made the call
    pub by: u32,
    pub addr: usize,
    pub size: usize,
    pub align: usize,
    pub seq: u32,
}

#[derive(Clone, Copy)]
struct Rec {
    raw: usize,
    raw_size: usize,
    base: usize,
    size: usize,
    align: usize,
    arena: u32,
    seq: u32,
    /// 1 live, 2 quarantined
    state: u8,
}

const REC0: Rec = Rec { raw: 0, raw_size: 0, base: 0, size: 0, align: 0, arena: 0, seq: 0, state: 0 };

#[derive(Clone, Copy)]
struct ArenaCtl {
    plan: Plan,
    placement: Placement,
    req_count: u32,
    refusals_in_call: u32,
    runaway: bool,
    /// key used instead of the arena id when deriving Mix residues (lets twins get identical placement)
    pkey: u32,
}

const CTL0: ArenaCtl = ArenaCtl {
    plan: Plan::None,
    placement: Placement::Max,
    req_count: 0,
    refusals_in_call: 0,
    runaway: false,
    pkey: 0,
};

const EV0: Event = Event { kind: EvKind::Alloc, arena: 0, by: 0, addr: 0, size: 0, align: 0, seq: 0 };

pub struct State {
    recs: [Rec; NREC],
    n_recs: usize,
    events: [Event; NEV],
    n_events: usize,
    ev_overflow: bool,
    rec_overflow: bool,
    arenas: [ArenaCtl; MAX_ARENAS],
    seed: u64,
    sentinel: usize,
}

static mut STATE: State = State {
    recs: [REC0; NREC],
    n_recs: 0,
    events: [EV0; NEV],
    n_events: 0,
    ev_overflow: false,
    rec_overflow: false,
    arenas: [CTL0; MAX_ARENAS],
    seed: 0,
    sentinel: 0,
};
static LOCK: AtomicBool = AtomicBool::new(false);
static NRECS_HINT: AtomicUsize = AtomicUsize::new(0);

pub struct StateGuard;
impl std::ops::Deref for StateGuard {
    type Target = State;
    fn deref(&self) -> &State {
        unsafe { &*std::ptr::addr_of!(STATE) }
    }
}
impl std::ops::DerefMut for StateGuard {
    fn deref_mut(&mut self) -> &mut State {
        unsafe { &mut *std::ptr::addr_of_mut!(STATE) }
    }
}
impl Drop for StateGuard {
    fn drop(&mut self) {
        LOCK.store(false, Ordering::Release);
    }
}
fn lock() -> StateGuard {
    while LOCK.compare_exchange_weak(false, true, Ordering::Acquire, Ordering::Relaxed).is_err() {
        std::hint::spin_loop();
    }
    StateGuard
}

impl State {
    fn push_ev(&mut self, ev: Event) {
        if self.n_events < NEV {
            self.events[self.n_events] = ev;
            self.n_events += 1;
        } else {
            self.ev_overflow = true;
        }
    }
}

fn mix64(mut x: u64) -> u64 {
    x ^= x >> 33;
    x = x.wrapping_mul(0xff51afd7ed558ccd);
    x ^= x >> 33;
    x = x.wrapping_mul(0xc4ceb9fe1a85ec53);
    x ^= x >> 33;
    x
}

unsafe fn fill(p: usize, len: usize, byte: u8) {
    if len <= 2 * FILL_CAP {
        std::ptr::write_bytes(p as *mut u8, byte, len);
    } else {
        std::ptr::write_bytes(p as *mut u8, byte, FILL_CAP);
        std::ptr::write_bytes((p + len - FILL_CAP) as *mut u8, byte, FILL_CAP);
    }
}

unsafe fn check_fill(p: usize, len: usize, byte: u8) -> Option<usize> {
    let chk = |p: usize, len: usize| -> Option<usize> {
        let s = std::slice::from_raw_parts(p as *const u8, len);
        s.iter().position(|&b| b != byte).map(|i| p + i)
    };
    if len <= 2 * FILL_CAP {
        chk(p, len)
    } else {
        chk(p, FILL_CAP).or_else(|| chk(p + len - FILL_CAP, FILL_CAP))
    }
}

pub struct Ledger;

unsafe impl GlobalAlloc for Ledger {
    unsafe fn alloc(&self, layout: Layout) -> *mut u8 {
        let cur = cur_arena();
        if cur == 0 {
            return System.alloc(layout);
        }
        attributed_alloc(cur, layout)
    }

    unsafe fn dealloc(&self, ptr: *mut u8, layout: Layout) {
        let cur = cur_arena();
        if cur == 0 && NRECS_HINT.load(Ordering::Relaxed) == 0 {
            return System.dealloc(ptr, layout);
        }
        if attributed_dealloc(cur, ptr as usize, layout) {
            return;
        }
        System.dealloc(ptr, layout)
    }

    unsafe fn alloc_zeroed(&self, layout: Layout) -> *mut u8 {
        let cur = cur_arena();
        if cur == 0 {
            return System.alloc_zeroed(layout);
        }
        let p = attributed_alloc(cur, layout);
        if !p.is_null() {
            std::ptr::write_bytes(p, 0, layout.size());
        }
        p
    }

    unsafe fn realloc(&self, ptr: *mut u8, layout: Layout, new_size: usize) -> *mut u8 {
        let cur = cur_arena();
        if cur == 0 && (NRECS_HINT.load(Ordering::Relaxed) == 0 || !is_attributed(ptr as usize)) {
            return System.realloc(ptr, layout, new_size);
        }
        // generic path (bumpalo never calls realloc on the global allocator today)
        let new_layout = Layout::from_size_align_unchecked(new_size, layout.align());
        let np = self.alloc(new_layout);
        if !np.is_null() {
            std::ptr::copy_nonoverlapping(ptr, np, layout.size().min(new_size));
            self.dealloc(ptr, layout);
        }
        np
    }
}

fn is_attributed(addr: usize) -> bool {
    let st = lock();
    st.recs[..st.n_recs].iter().any(|r| r.state != 0 && addr >= r.base && addr < r.base + r.size.max(1))
}

unsafe fn attributed_alloc(cur: u32, layout: Layout) -> *mut u8 {
    let size = layout.size();
    let align = layout.align();
    let mut st = lock();
    let seed = st.seed;
    let ctl = &mut st.arenas[cur as usize];
    let k = ctl.req_count;
    ctl.req_count += 1;
    let mut refuse = size > HARD_CAP
        || match ctl.plan {
            Plan::None => false,
            Plan::FailKth(i) => k == i,
            Plan::FailFrom(i) => k >= i,
            Plan::FailAtLeast(s) => size >= s,
            Plan::Window(a, b) => k >= a && k < b,
            Plan::FailAll => true,
        };
    let mut runaway_now = false;
    if refuse {
        ctl.refusals_in_call += 1;
        if ctl.refusals_in_call > REFUSAL_BUDGET && size <= HARD_CAP {
            if !ctl.runaway {
                runaway_now = true;
            }
            ctl.runaway = true;
            refuse = false;
        }
    }
    let placement = ctl.placement;
    let pkey = if ctl.pkey != 0 { ctl.pkey } else { cur };
    if runaway_now {
        st.push_ev(Event { kind: EvKind::Runaway, arena: cur, by: cur, addr: 0, size, align, seq: k });
    }
    if refuse {
        st.push_ev(Event { kind: EvKind::Refuse, arena: cur, by: cur, addr: 0, size, align, seq: k });
        return std::ptr::null_mut();
    }
    if st.n_recs >= NREC {
        st.rec_overflow = true;
        st.push_ev(Event { kind: EvKind::Refuse, arena: cur, by: cur, addr: 0, size, align, seq: k });
        return std::ptr::null_mut();
    }
    // placement window
    let w = (2 * align).max(8192);
    let residue = match placement {
        Placement::Max => 0,
        Placement::Min => align % w,
        Placement::Mix => {
            let slots = (w / align) as u64;
            ((mix64(seed ^ ((pkey as u64) << 40) ^ (k as u64).wrapping_mul(0x9e3779b97f4a7c15)) % slots) as usize) * align
        }
    };
    // whole pages, so that a block given back can be made inaccessible until the case ends (see attributed_dealloc)
    let raw_size = (size + 2 * GUARD + 2 * w + 4095) & !4095;
    let raw_layout = Layout::from_size_align_unchecked(raw_size, 4096);
    drop(st);
    let raw = System.alloc(raw_layout) as usize;
    if raw == 0 {
        let mut st = lock();
        st.push_ev(Event { kind: EvKind::Refuse, arena: cur, by: cur, addr: 0, size, align, seq: k });
        return std::ptr::null_mut();
    }
    let lo = raw + GUARD;
    let mut base = (lo / w) * w + residue;
    while base < lo {
        base += w;
    }
    debug_assert!(base + size + GUARD <= raw + raw_size);
    fill(base - GUARD, GUARD, GUARD_BYTE);
    fill(base + size, GUARD, GUARD_BYTE);
    fill(base, size, FRESH_BYTE);
    let mut st = lock();
    let n = st.n_recs;
    st.recs[n] = Rec { raw, raw_size, base, size, align, arena: cur, seq: k, state: 1 };
    st.n_recs = n + 1;
    NRECS_HINT.store(n + 1, Ordering::Relaxed);
    st.push_ev(Event { kind: EvKind::Alloc, arena: cur, by: cur, addr: base, size, align, seq: k });
    base as *mut u8
}

/// returns true if the ledger consumed the free (must not be forwarded to the system allocator)
unsafe fn attributed_dealloc(cur: u32, addr: usize, layout: Layout) -> bool {
    let mut st = lock();
    if addr != 0 && addr == st.sentinel {
        st.push_ev(Event { kind: EvKind::SentinelFree, arena: cur, by: cur, addr, size: layout.size(), align: layout.align(), seq: 0 });
        return true;
    }
    let n = st.n_recs;
    // exact base match, newest record first (a quarantined and a live record never share a base
    // because quarantined raw blocks are still held)
    for i in (0..n).rev() {
        let r = st.recs[i];
        if r.base == addr {
            if r.state == 2 {
                st.push_ev(Event { kind: EvKind::DoubleFree, arena: r.arena, by: cur, addr, size: layout.size(), align: layout.align(), seq: r.seq });
                return true;
            }
            if r.size != layout.size() || r.align != layout.align() {
                st.push_ev(Event { kind: EvKind::LayoutMismatch, arena: r.arena, by: cur, addr, size: layout.size(), align: layout.align(), seq: r.seq });
                // still retire the block so that the case can go on
            }
            st.recs[i].state = 2;
            st.push_ev(Event { kind: EvKind::Free, arena: r.arena, by: cur, addr, size: r.size, align: r.align, seq: r.seq });
            drop(st);
            fill(r.base, r.size, FREED_BYTE);
            // quarantine: from now until the end of the case any access to the block - a read as much as a write, by the
            // arena or through a reference that outlived it - is a fault (the worker dies, the death reproduces on replay)
            if protect_freed() {
                libc::mprotect(r.raw as *mut libc::c_void, r.raw_size, libc::PROT_NONE);
            }
            return true;
        }
    }
    if cur != 0 {
        for i in 0..n {
            let r = st.recs[i];
            if addr > r.base && addr < r.base + r.size {
                st.push_ev(Event { kind: EvKind::InteriorFree, arena: r.arena, by: cur, addr, size: layout.size(), align: layout.align(), seq: r.seq });
                return true;
            }
        }
    }
    false
}

// ---------------------------------------------------------------------------------------------
// harness-side API (user mode)

#[derive(Clone, Copy, Debug)]
pub struct Block {
    pub base: usize,
    pub size: usize,
    pub align: usize,
    pub arena: u32,
    pub seq: u32,
    pub live: bool,
}

/// quarantined blocks are made inaccessible (mprotect) unless VERIF_NO_PROTECT is set (then they are only poisoned)
pub fn protect_freed() -> bool {
    static P: AtomicU32 = AtomicU32::new(0);
    match P.load(Ordering::Relaxed) {
        1 => true,
        2 => false,
        _ => {
            let on = unsafe { libc::getenv(b"VERIF_NO_PROTECT\0".as_ptr() as *const libc::c_char).is_null() };
            P.store(if on { 1 } else { 2 }, Ordering::Relaxed);
            on
        }
    }
}

pub fn begin_case(seed: u64) {
    end_case();
    let mut st = lock();
    st.seed = seed;
    st.n_events = 0;
    st.ev_overflow = false;
    st.rec_overflow = false;
    st.arenas = [CTL0; MAX_ARENAS];
}

/// Releases every raw block (live or quarantined). Returns the number of blocks that were still live.
pub fn end_case() -> usize {
    let mut st = lock();
    let n = st.n_recs;
    let mut live = 0;
    for i in 0..n {
        let r = st.recs[i];
        if r.state == 1 {
            live += 1;
        }
        if r.state != 0 {
            unsafe {
                if r.state == 2 && protect_freed() {
                    libc::mprotect(r.raw as *mut libc::c_void, r.raw_size, libc::PROT_READ | libc::PROT_WRITE);
                }
                System.dealloc(r.raw as *mut u8, Layout::from_size_align_unchecked(r.raw_size, 4096))
            };
        }
        st.recs[i] = REC0;
    }
    st.n_recs = 0;
    NRECS_HINT.store(0, Ordering::Relaxed);
    live
}

pub fn set_plan(arena: u32, plan: Plan) {
    lock().arenas[arena as usize].plan = plan;
}
pub fn plan(arena: u32) -> Plan {
    lock().arenas[arena as usize].plan
}
pub fn set_placement(arena: u32, p: Placement) {
    lock().arenas[arena as usize].placement = p;
}
pub fn set_placement_key(arena: u32, key: u32) {
    lock().arenas[arena as usize].pkey = key;
}
pub fn req_count(arena: u32) -> u32 {
    lock().arenas[arena as usize].req_count
}
pub fn set_sentinel(addr: usize) {
    lock().sentinel = addr;
}
pub fn sentinel() -> usize {
    lock().sentinel
}
pub fn overflowed() -> bool {
    let st = lock();
    st.ev_overflow || st.rec_overflow
}

/// Drain the event log into `out` (user mode only). Never allocates while the lock is held.
pub fn take_events(out: &mut Vec<Event>) {
    out.clear();
    loop {
        let need = lock().n_events;
        if out.capacity() < need {
            out.reserve(need + 64);
            continue;
        }
        let mut st = lock();
        if st.n_events > out.capacity() {
            continue;
        }
        for i in 0..st.n_events {
            out.push(st.events[i]);
        }
        st.n_events = 0;
        return;
    }
}

/// Drain only the events that concern `arena` (used when several threads drive their own arenas).
pub fn take_events_for(arena: u32, out: &mut Vec<Event>) {
    out.clear();
    loop {
        let need = lock().n_events;
        if out.capacity() < need {
            out.reserve(need + 64);
            continue;
        }
        let mut st = lock();
        if st.n_events > out.capacity() {
            continue;
        }
        let n = st.n_events;
        let mut w = 0;
        for i in 0..n {
            let ev = st.events[i];
            if ev.arena == arena || ev.by == arena {
                out.push(ev);
            } else {
                st.events[w] = ev;
                w += 1;
            }
        }
        st.n_events = w;
        return;
    }
}

pub fn blocks(arena: u32, out: &mut Vec<Block>) {
    out.clear();
    loop {
        let need = lock().n_recs;
        if out.capacity() < need {
            out.reserve(need + 64);
            continue;
        }
        let st = lock();
        if st.n_recs > out.capacity() {
            continue;
        }
        for r in st.recs[..st.n_recs].iter() {
            if r.state != 0 && (arena == 0 || r.arena == arena) {
                out.push(Block { base: r.base, size: r.size, align: r.align, arena: r.arena, seq: r.seq, live: r.state == 1 });
            }
        }
        return;
    }
}

/// Verify guard bands of all blocks and the poison of all quarantined blocks.
/// Returns a description of the first corruption found.
pub fn check_integrity(with_quarantine: bool) -> Option<(u32, String)> {
    // (arena, kind, distance, size, align); formatted after the lock is released
    let mut found: Option<(u32, u8, usize, usize, usize)> = None;
    {
        let st = lock();
        for r in st.recs[..st.n_recs].iter() {
            if r.state == 0 || (r.state == 2 && protect_freed()) {
                // (a quarantined block is inaccessible: a stray write faults instead of changing the poison)
                continue;
            }
            unsafe {
                if let Some(a) = check_fill(r.base - GUARD, GUARD, GUARD_BYTE) {
                    found = Some((r.arena, 0, r.base - a, r.size, r.align));
                    break;
                }
                if let Some(a) = check_fill(r.base + r.size, GUARD, GUARD_BYTE) {
                    found = Some((r.arena, 1, a - (r.base + r.size), r.size, r.align));
                    break;
                }
                if r.state == 2 && with_quarantine {
                    if let Some(a) = check_fill(r.base, r.size, FREED_BYTE) {
                        found = Some((r.arena, 2, a - r.base, r.size, r.align));
                        break;
                    }
                }
            }
        }
    }
    found.map(|(arena, kind, d, size, align)| {
        let what = match kind {
            0 => format!("write below a chunk: guard byte {} bytes before block(size={},align={}) changed", d, size, align),
            1 => format!("write beyond a chunk: guard byte {} bytes after block(size={},align={}) changed", d, size, align),
            _ => format!("write into a chunk already returned to the global allocator, offset {} of block(size={},align={})", d, size, align),
        };
        (arena, what)
    })
}
