use vlib::arena_eng::ArenaEngine;
use vlib::runner::{cli_main, Engine};

fn lookup(prop: &str) -> Option<Box<dyn Engine>> {
    let p: &'static str = match prop {
        "C01" => "C01", "C02" => "C02", "C03" => "C03", "C04" => "C04", "C06" => "C06", "C07" => "C07",
        "C08" => "C08", "C10" => "C10", "C11" => "C11", "C12" => return Some(Box::new(vlib::c12::C12Engine::new())),
        "C18" => return Some(Box::new(vlib::c18::C18Engine::new())),
        _ => return None,
    };
    Some(Box::new(ArenaEngine::new(p)))
}

fn main() {
    cli_main(&lookup)
}
