use vlib::c05::C05Engine;
use vlib::runner::{cli_main, Engine};

fn lookup(prop: &str) -> Option<Box<dyn Engine>> {
    match prop {
        "C05" => Some(Box::new(C05Engine)),
        _ => None,
    }
}

fn main() {
    cli_main(&lookup)
}
