use vlib::c05::C05Engine;
use vlib::runner::{cli_main, Engine};

fn lookup(prop: &str) -> Option<Box<dyn Engine>> {
    match prop {
        "C05" => Some(Box::new(C05Engine)),
        _ => None,
    }
}

fn main() {
    if std::env::args().nth(1).as_deref() == Some("c20-thread-probe") {
        std::process::exit(vlib::c05::c20_thread_probe());
    }
    cli_main(&lookup)
}
