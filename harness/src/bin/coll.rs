use vlib::coll_eng::CollEngine;
use vlib::runner::{cli_main, Engine};

fn lookup(prop: &str) -> Option<Box<dyn Engine>> {
    match prop {
        "C13" => Some(Box::new(CollEngine { prop: "C13" })),
        "C14" => Some(Box::new(CollEngine { prop: "C14" })),
        "C15" => Some(Box::new(CollEngine { prop: "C15" })),
        "C17" => Some(Box::new(vlib::box_eng::C17Engine)),
        "C16" => Some(Box::new(vlib::c16::C16Engine::new())),
        _ => None,
    }
}

fn main() {
    cli_main(&lookup)
}
