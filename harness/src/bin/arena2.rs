use vlib::multi_eng::{C09Engine, C20Engine};
use vlib::runner::{cli_main, Engine};

fn lookup(prop: &str) -> Option<Box<dyn Engine>> {
    match prop {
        "C09" => Some(Box::new(C09Engine::new())),
        "C20" => Some(Box::new(C20Engine)),
        _ => None,
    }
}

fn main() {
    cli_main(&lookup)
}
