use vlib::c19::C19Engine;
use vlib::multi_eng::{C09Engine, C20Engine};
use vlib::runner::{cli_main, Engine};

fn lookup(prop: &str) -> Option<Box<dyn Engine>> {
    match prop {
        "C09" => Some(Box::new(C09Engine::new())),
        "C20" => Some(Box::new(C20Engine)),
        "C19" => Some(Box::new(C19Engine)),
        _ => None,
    }
}

fn main() {
    if std::env::args().nth(1).as_deref() == Some("c19-mmap") {
        std::process::exit(vlib::c19::mmap_child());
    }
    cli_main(&lookup)
}
