pub mod ledger;
pub mod types;
pub mod sim;
pub mod ops;
pub mod ops2;
pub mod runner;
pub mod arena_eng;

#[global_allocator]
static GLOBAL: ledger::Ledger = ledger::Ledger;
pub mod multi_eng;
pub mod celem;
pub mod vec_eng;
pub mod str_eng;
pub mod coll_eng;
pub mod c19;
pub mod c16;
pub mod box_eng;
pub mod c18;
pub mod c05;
pub mod c12;
