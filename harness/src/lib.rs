//! vlib: the verification engines. Everything that drives bumpalo at run time is behind the
//! (default) feature `engines`; the C05 compile-probe engine only needs `runner` and `c05`, so that
//! a change to bumpalo's public API that stops the run-time engines from compiling cannot mask the
//! verdict of the compile probes (`cargo build --bin probes --no-default-features`).
pub mod c05;
pub mod ledger;
pub mod runner;
pub mod types;

#[global_allocator]
static GLOBAL: ledger::Ledger = ledger::Ledger;

#[cfg(feature = "engines")]
pub mod arena_eng;
#[cfg(feature = "engines")]
pub mod box_eng;
#[cfg(feature = "engines")]
pub mod c09b;
#[cfg(feature = "engines")]
pub mod c12;
#[cfg(feature = "engines")]
pub mod c16;
#[cfg(feature = "engines")]
pub mod c18;
#[cfg(feature = "engines")]
pub mod c19;
#[cfg(feature = "engines")]
pub mod celem;
#[cfg(feature = "engines")]
pub mod coll_eng;
#[cfg(feature = "engines")]
pub mod multi_eng;
#[cfg(feature = "engines")]
pub mod ops;
#[cfg(feature = "engines")]
pub mod ops2;
#[cfg(feature = "engines")]
pub mod sim;
#[cfg(feature = "engines")]
pub mod str_eng;
#[cfg(feature = "engines")]
pub mod vec_eng;
