//! C19 — impossible sizes are refused, never wrapped: boundary enumeration over every size-taking
//! entry point of Bump, Vec and String.

use crate::arena_eng::{k_meta, learn_sentinel};
use crate::ledger::{self, enter_arena};
use crate::runner::*;
use crate::sim::panic_msg;
use bumpalo::collections::{String as BString, Vec as BVec};
use bumpalo::Bump;
use proptest::prelude::*;
use proptest::strategy::BoxedStrategy;
use serde_json::{json, Value};
use std::alloc::Layout;
use std::collections::BTreeMap;
use std::panic::{catch_unwind, AssertUnwindSafe};

pub const ENTRY_NAMES: [&str; 24] = [
    "Bump::try_with_capacity",
    "Bump::with_capacity",
    "try_alloc_layout",
    "alloc_layout",
    "try_alloc_slice_fill_copy",
    "alloc_slice_fill_copy",
    "try_alloc_slice_fill_default",
    "alloc_slice_fill_default",
    "try_alloc_slice_fill_with",
    "alloc_slice_fill_with",
    "alloc_slice_try_fill_with",
    "Vec::with_capacity_in",
    "Vec::reserve",
    "Vec::reserve_exact",
    "Vec::try_reserve",
    "Vec::try_reserve_exact",
    "Vec::resize",
    "Vec::extend_from_slice_copy(zst slice)",
    "String::with_capacity_in",
    "String::reserve",
    "String::reserve_exact",
    "Allocator::allocate",
    "Allocator::grow",
    "Vec::insert-driven growth after reserve near the boundary",
];
pub const NENTRY: usize = ENTRY_NAMES.len();

/// element-size classes
pub const ELEM_SIZES: [usize; 7] = [0, 1, 3, 8, 24, 4096, (1usize << 31) + 1];

pub fn boundary_counts(s: usize) -> Vec<usize> {
    let mut v: Vec<usize> = vec![0, 1, 2, 7, usize::MAX, usize::MAX - 1, usize::MAX / 2, usize::MAX / 2 + 1, isize::MAX as usize, isize::MAX as usize + 1, isize::MAX as usize - 1, 1 << 31, (1 << 31) + 1, 1 << 32, (1usize << 32) + 1, 1 << 40];
    if s > 0 {
        for base in [usize::MAX / s, isize::MAX as usize / s, (isize::MAX as usize - 15) / s, (isize::MAX as usize - 4095) / s, (isize::MAX as usize - 63) / s, (1usize << 30) / s, (1usize << 31) / s] {
            for d in [-2i64, -1, 0, 1, 2] {
                v.push((base as i128 + d as i128).clamp(0, usize::MAX as i128) as usize);
            }
        }
    }
    v.sort_unstable();
    v.dedup();
    v
}

#[derive(Debug, Clone, PartialEq)]
pub enum Outcome {
    Err,
    Panic(String),
    /// Ok with the claimed extent (ptr, bytes)
    Ok(usize, usize),
    NotApplicable,
}

fn extent_ok(ptr: usize, bytes: usize) -> Result<(), String> {
    if bytes == 0 {
        return Ok(());
    }
    let mut blocks = vec![];
    ledger::blocks(1, &mut blocks);
    let k = k_meta();
    for b in blocks.iter().filter(|b| b.live) {
        let end = b.base + b.size.saturating_sub(k);
        if ptr >= b.base && ptr.checked_add(bytes).map_or(false, |e| e <= end) {
            return Ok(());
        }
    }
    Err(format!("claims {bytes} bytes at {ptr:#x} but no block the arena holds contains them (arena holds {} blocks, {} bytes)", blocks.iter().filter(|b| b.live).count(), blocks.iter().filter(|b| b.live).map(|b| b.size).sum::<usize>()))
}

macro_rules! with_elem {
    ($idx:expr, $f:ident, $($args:expr),*) => {
        match $idx {
            0 => $f::<()>($($args),*),
            1 => $f::<u8>($($args),*),
            2 => $f::<[u8; 3]>($($args),*),
            3 => $f::<u64>($($args),*),
            4 => $f::<[u64; 3]>($($args),*),
            5 => $f::<[u8; 4096]>($($args),*),
            _ => $f::<[u8; (1usize << 31) + 1]>($($args),*),
        }
    };
}

fn guard<R>(f: impl FnOnce() -> R) -> Result<R, String> {
    let _g = enter_arena(1);
    catch_unwind(AssertUnwindSafe(f)).map_err(panic_msg)
}

/// Bump slice entry points for element type T (Copy + Default needed only for small T: large arrays
/// are never instantiated because the reservation must fail first; we use MaybeUninit-free tricks:
/// the fill closures would only run after a successful reservation).
fn bump_slice<T: 'static>(entry: usize, n: usize, m_sel: usize) -> Outcome {
    fn go<T: 'static, const M: usize>(entry: usize, n: usize) -> Outcome {
        let b = {
            let _g = enter_arena(1);
            Bump::<M>::with_min_align()
        };
        let size = std::mem::size_of::<T>();
        // never let a fill closure run for astronomically many elements
        let may_succeed = size.checked_mul(n).map_or(false, |t| t <= (1 << 20)) && (size > 0 || n <= 4096);
        if size == 0 && n > 4096 {
            // zero-sized fills with a huge count legitimately loop for the whole count: excluded
            return Outcome::NotApplicable;
        }
        let r: Result<Option<(usize, usize)>, String> = match entry {
            8 => guard(|| b.try_alloc_slice_fill_with(n, |_| -> T { unsafe { std::mem::zeroed() } }).ok().map(|s| (s.as_ptr() as usize, s.len()))),
            9 => guard(|| Some(b.alloc_slice_fill_with(n, |_| -> T { unsafe { std::mem::zeroed() } })).map(|s| (s.as_ptr() as usize, s.len()))),
            10 => guard(|| b.alloc_slice_try_fill_with(n, |_| -> Result<T, ()> { Ok(unsafe { std::mem::zeroed() }) }).ok().map(|s| (s.as_ptr() as usize, s.len()))),
            _ => return Outcome::NotApplicable,
        };
        let _ = may_succeed;
        let out = match r {
            Err(m) => Outcome::Panic(m),
            Ok(None) => Outcome::Err,
            Ok(Some((p, len))) => {
                if len != n {
                    Outcome::Ok(p, usize::MAX)
                } else {
                    Outcome::Ok(p, len.saturating_mul(size))
                }
            }
        };
        let out = check_and_drop(out);
        let _g = enter_arena(1);
        drop(b);
        out
    }
    match m_sel {
        0 => go::<T, 1>(entry, n),
        1 => go::<T, 8>(entry, n),
        _ => go::<T, 16>(entry, n),
    }
}

/// verify the extent while the arena is still alive
fn check_and_drop(o: Outcome) -> Outcome {
    if let Outcome::Ok(p, bytes) = o {
        match extent_ok(p, bytes) {
            Ok(()) => Outcome::Ok(p, bytes),
            Err(m) => Outcome::Panic(format!("VIOLATION:{m}")),
        }
    } else {
        o
    }
}

fn bump_copy_fill<T: Copy + Default + 'static>(entry: usize, n: usize, m_sel: usize) -> Outcome {
    fn go<T: Copy + Default + 'static, const M: usize>(entry: usize, n: usize) -> Outcome {
        let b = {
            let _g = enter_arena(1);
            Bump::<M>::with_min_align()
        };
        let size = std::mem::size_of::<T>();
        if size == 0 && n > 4096 {
            return Outcome::NotApplicable;
        }
        let r: Result<Option<(usize, usize)>, String> = match entry {
            4 => guard(|| b.try_alloc_slice_fill_copy(n, T::default()).ok().map(|s| (s.as_ptr() as usize, s.len()))),
            5 => guard(|| Some(b.alloc_slice_fill_copy(n, T::default())).map(|s| (s.as_ptr() as usize, s.len()))),
            6 => guard(|| b.try_alloc_slice_fill_default::<T>(n).ok().map(|s| (s.as_ptr() as usize, s.len()))),
            7 => guard(|| Some(b.alloc_slice_fill_default::<T>(n)).map(|s| (s.as_ptr() as usize, s.len()))),
            _ => return Outcome::NotApplicable,
        };
        let out = match r {
            Err(m) => Outcome::Panic(m),
            Ok(None) => Outcome::Err,
            Ok(Some((p, len))) => Outcome::Ok(p, if len == n { len.saturating_mul(size) } else { usize::MAX }),
        };
        let out = check_and_drop(out);
        let _g = enter_arena(1);
        drop(b);
        out
    }
    match m_sel {
        0 => go::<T, 1>(entry, n),
        1 => go::<T, 8>(entry, n),
        _ => go::<T, 16>(entry, n),
    }
}

fn vec_entry<T: 'static>(entry: usize, n: usize, pre: usize) -> Outcome {
    let size = std::mem::size_of::<T>();
    let b = {
        let _g = enter_arena(1);
        Bump::new()
    };
    let out = {
        let r: Result<Option<(usize, usize)>, String> = guard(|| {
            let mut v: BVec<T> = BVec::new_in(&b);
            // a few real elements first, so that len + additional matters
            if size <= 4096 {
                for _ in 0..pre {
                    v.push(unsafe { std::mem::zeroed() });
                }
            }
            let ok = match entry {
                11 => {
                    drop(v);
                    v = BVec::with_capacity_in(n, &b);
                    true
                }
                12 => {
                    v.reserve(n);
                    true
                }
                13 => {
                    v.reserve_exact(n);
                    true
                }
                14 => v.try_reserve(n).is_ok(),
                15 => v.try_reserve_exact(n).is_ok(),
                _ => true,
            };
            if !ok {
                return None;
            }
            if entry != 11 && v.len().checked_add(n).is_none() {
                // len + additional is not representable: no vector can ever hold that many elements
                let _u = ledger::enter_user();
                panic!("VIOLATION:accepted a request for len {} + {n} more elements of {size} bytes: that element count does not fit in usize", v.len());
            }
            if v.capacity() < v.len().saturating_add(if entry == 11 { 0 } else { n }) && entry != 11 {
                return Some((v.as_ptr() as usize, usize::MAX));
            }
            if entry == 11 && v.capacity() < n {
                return Some((v.as_ptr() as usize, usize::MAX));
            }
            let claimed = v.capacity().checked_mul(size).unwrap_or(usize::MAX);
            let res = Some((v.as_ptr() as usize, claimed));
            // check while alive
            let chk = {
                let _u = ledger::enter_user();
                extent_ok(res.unwrap().0, res.unwrap().1)
            };
            std::mem::forget(v);
            match chk {
                Ok(()) => res,
                Err(m) => {
                    let _u = ledger::enter_user();
                    panic!("VIOLATION:{m}")
                }
            }
        });
        match r {
            Err(m) => Outcome::Panic(m),
            Ok(None) => Outcome::Err,
            Ok(Some((p, bytes))) => {
                if bytes == usize::MAX && size > 0 {
                    Outcome::Panic(format!("VIOLATION:returned normally but the capacity does not cover len + {n} elements of {size} bytes"))
                } else {
                    Outcome::Ok(p, bytes)
                }
            }
        }
    };
    let _g = enter_arena(1);
    drop(b);
    out
}

fn vec_resize<T: Clone + Default + 'static>(n: usize) -> Outcome {
    let size = std::mem::size_of::<T>();
    if size == 0 || (n as u128) * (size as u128) <= (1 << 24) && n > (1 << 20) {
        return Outcome::NotApplicable;
    }
    if (n as u128) * (size as u128) > (1 << 24) && (n as u128) * (size as u128) <= (1u128 << 30) {
        // would really be filled: too slow for an enumeration
        return Outcome::NotApplicable;
    }
    let b = {
        let _g = enter_arena(1);
        Bump::new()
    };
    let r = guard(|| {
        let mut v: BVec<T> = BVec::new_in(&b);
        v.resize(n, T::default());
        let res = (v.as_ptr() as usize, v.len().saturating_mul(size), v.len());
        let chk = {
            let _u = ledger::enter_user();
            extent_ok(res.0, res.1)
        };
        std::mem::forget(v);
        (res, chk)
    });
    let out = match r {
        Err(m) => Outcome::Panic(m),
        Ok(((p, bytes, len), chk)) => {
            if len != n {
                Outcome::Panic(format!("VIOLATION:resize({n}) returned with len {len}"))
            } else if let Err(m) = chk {
                Outcome::Panic(format!("VIOLATION:{m}"))
            } else {
                Outcome::Ok(p, bytes)
            }
        }
    };
    let _g = enter_arena(1);
    drop(b);
    out
}

/// one enumeration item
pub fn run_item(entry: usize, elem: usize, n: usize, variant: usize) -> Outcome {
    let _ = k_meta();
    ledger::begin_case(1);
    ledger::set_sentinel(learn_sentinel());
    let out = match entry {
        0 | 1 => {
            fn ctor<const M: usize>(entry: usize, n: usize) -> Outcome {
                let r = if entry == 0 { guard(|| Bump::<M>::try_with_min_align_and_capacity(n).ok()) } else { guard(|| Some(Bump::<M>::with_min_align_and_capacity(n))) };
                match r {
                    Err(m) => Outcome::Panic(m),
                    Ok(None) => Outcome::Err,
                    Ok(Some(b)) => {
                        let cap = b.chunk_capacity();
                        let out = if cap < n {
                            Outcome::Panic(format!("VIOLATION:arena built with capacity {n} has chunk_capacity {cap}"))
                        } else {
                            let mut blocks = vec![];
                            ledger::blocks(1, &mut blocks);
                            let held: usize = blocks.iter().filter(|b| b.live).map(|b| b.size).sum();
                            if held < cap {
                                Outcome::Panic(format!("VIOLATION:chunk_capacity {cap} exceeds the {held} bytes actually held"))
                            } else {
                                Outcome::Ok(0, 0)
                            }
                        };
                        let _g = enter_arena(1);
                        drop(b);
                        out
                    }
                }
            }
            match variant % 3 {
                0 => ctor::<1>(entry, n),
                1 => ctor::<8>(entry, n),
                _ => ctor::<16>(entry, n),
            }
        }
        2 | 3 | 21 => {
            let align = [1usize, 8, 16, 64, 4096][variant % 5];
            match Layout::from_size_align(n, align) {
                Err(_) => Outcome::NotApplicable,
                Ok(l) => {
                    let b = {
                        let _g = enter_arena(1);
                        Bump::new()
                    };
                    let r = match entry {
                        2 => guard(|| b.try_alloc_layout(l).ok().map(|p| p.as_ptr() as usize)),
                        3 => guard(|| Some(b.alloc_layout(l).as_ptr() as usize)),
                        _ => guard(|| {
                            use allocator_api2::alloc::Allocator;
                            (&b).allocate(l).ok().map(|p| p.as_ptr() as *mut u8 as usize)
                        }),
                    };
                    let out = check_and_drop(match r {
                        Err(m) => Outcome::Panic(m),
                        Ok(None) => Outcome::Err,
                        Ok(Some(p)) => Outcome::Ok(p, n),
                    });
                    let _g = enter_arena(1);
                    drop(b);
                    out
                }
            }
        }
        22 => {
            // grow a small block to an impossible size
            let align = [1usize, 8, 16][variant % 3];
            match (Layout::from_size_align(16, align), Layout::from_size_align(n, align)) {
                (Ok(old), Ok(new)) if n >= 16 => {
                    let b = {
                        let _g = enter_arena(1);
                        Bump::new()
                    };
                    let r = guard(|| {
                        use allocator_api2::alloc::Allocator;
                        let p = (&b).allocate(old).ok()?;
                        unsafe { (&b).grow(p.cast(), old, new).ok().map(|q| q.as_ptr() as *mut u8 as usize) }
                    });
                    let out = check_and_drop(match r {
                        Err(m) => Outcome::Panic(m),
                        Ok(None) => Outcome::Err,
                        Ok(Some(p)) => Outcome::Ok(p, n),
                    });
                    let _g = enter_arena(1);
                    drop(b);
                    out
                }
                _ => Outcome::NotApplicable,
            }
        }
        4..=7 => match elem {
            0 => bump_copy_fill::<()>(entry, n, variant % 3),
            1 => bump_copy_fill::<u8>(entry, n, variant % 3),
            2 => bump_copy_fill::<[u8; 3]>(entry, n, variant % 3),
            3 => bump_copy_fill::<u64>(entry, n, variant % 3),
            4 => bump_copy_fill::<[u64; 3]>(entry, n, variant % 3),
            _ => Outcome::NotApplicable,
        },
        8..=10 => with_elem!(elem, bump_slice, entry, n, variant % 3),
        11..=15 => with_elem!(elem, vec_entry, entry, n, variant % 3),
        16 => match elem {
            1 => vec_resize::<u8>(n),
            2 => vec_resize::<[u8; 3]>(n),
            3 => vec_resize::<u64>(n),
            4 => vec_resize::<[u64; 3]>(n),
            _ => Outcome::NotApplicable,
        },
        17 => {
            // zero-sized slices whose lengths add up beyond usize::MAX; nothing may claim memory
            if elem != 0 {
                Outcome::NotApplicable
            } else {
                let b = {
                    let _g = enter_arena(1);
                    Bump::new()
                };
                let big: &[()] = unsafe { std::slice::from_raw_parts(std::ptr::NonNull::<()>::dangling().as_ptr(), n) };
                let r = guard(|| {
                    let mut v: BVec<()> = BVec::new_in(&b);
                    if variant % 2 == 0 {
                        v.extend_from_slice_copy(big);
                        v.extend_from_slice_copy(big);
                    } else {
                        v.extend_from_slices_copy(&[big, big]);
                    }
                    v.len()
                });
                let out = match r {
                    Err(m) => Outcome::Panic(m),
                    Ok(len) => {
                        if (n as u128) * 2 != len as u128 {
                            Outcome::Panic(format!("VIOLATION:two zero-sized slices of {n} elements were appended and the vector reports len {len}: the element count wrapped around"))
                        } else {
                            Outcome::Ok(0, 0)
                        }
                    }
                };
                let _g = enter_arena(1);
                drop(b);
                out
            }
        }
        18..=20 => {
            if elem != 1 {
                Outcome::NotApplicable
            } else {
                let b = {
                    let _g = enter_arena(1);
                    Bump::new()
                };
                let r = guard(|| {
                    let mut s = BString::new_in(&b);
                    if variant % 2 == 1 {
                        s.push_str("abc");
                    }
                    match entry {
                        18 => s = BString::with_capacity_in(n, &b),
                        19 => s.reserve(n),
                        _ => s.reserve_exact(n),
                    }
                    let res = (s.as_ptr() as usize, s.capacity(), s.len());
                    let chk = {
                        let _u = ledger::enter_user();
                        extent_ok(res.0, res.1)
                    };
                    std::mem::forget(s);
                    (res, chk)
                });
                let out = match r {
                    Err(m) => Outcome::Panic(m),
                    Ok(((p, cap, len), chk)) => {
                        if cap < len.saturating_add(n) && !(entry == 18 && cap >= n) {
                            Outcome::Panic(format!("VIOLATION:String capacity {cap} does not cover len {len} + {n}"))
                        } else if let Err(m) = chk {
                            Outcome::Panic(format!("VIOLATION:{m}"))
                        } else {
                            Outcome::Ok(p, cap)
                        }
                    }
                };
                let _g = enter_arena(1);
                drop(b);
                out
            }
        }
        23 => {
            // reserve right below the boundary, then keep inserting: growth must not wrap
            if elem == 0 || elem >= 5 {
                Outcome::NotApplicable
            } else {
                let b = {
                    let _g = enter_arena(1);
                    Bump::new()
                };
                let r = guard(|| {
                    let mut v: BVec<u64> = BVec::new_in(&b);
                    let ok = v.try_reserve(n).is_ok();
                    if ok {
                        for i in 0..8u64 {
                            v.insert(0, i);
                        }
                    }
                    let res = (v.as_ptr() as usize, v.capacity().saturating_mul(8), ok);
                    let chk = {
                        let _u = ledger::enter_user();
                        extent_ok(res.0, res.1)
                    };
                    std::mem::forget(v);
                    (res, chk)
                });
                let out = match r {
                    Err(m) => Outcome::Panic(m),
                    Ok(((_, _, false), _)) => Outcome::Err,
                    Ok(((p, bytes, true), chk)) => match chk {
                        Ok(()) => Outcome::Ok(p, bytes),
                        Err(m) => Outcome::Panic(format!("VIOLATION:{m}")),
                    },
                };
                let _g = enter_arena(1);
                drop(b);
                out
            }
        }
        _ => Outcome::NotApplicable,
    };
    ledger::end_case();
    out
}

fn is_try(entry: usize) -> bool {
    matches!(entry, 0 | 2 | 4 | 6 | 8 | 14 | 15 | 21 | 22)
}

/// judge an outcome; returns a violation message
pub fn judge(entry: usize, elem: usize, n: usize, variant: usize, o: &Outcome) -> Option<String> {
    let what = format!("{}(elem size {}, count/size {n}, variant {variant})", ENTRY_NAMES[entry], ELEM_SIZES[elem]);
    match o {
        Outcome::Panic(m) if m.starts_with("VIOLATION:") => Some(format!("{what}: {}", &m[10..])),
        Outcome::Panic(m) if is_try(entry) => Some(format!("{what}: a fallible entry point panicked: {m}")),
        _ => None,
    }
}

pub fn item_json(entry: usize, elem: usize, n: usize, variant: usize) -> Value {
    json!({"entry": entry, "entry_name": ENTRY_NAMES[entry], "elem": elem, "elem_size": ELEM_SIZES[elem], "n": n.to_string(), "variant": variant})
}

pub fn c19_sweep(_tier: Tier, idx: u32, nworkers: u32) -> SweepOut {
    install_quiet_panic_hook();
    let mut out = SweepOut { exhaustive: true, ..Default::default() };
    let mut per_entry: BTreeMap<String, u64> = BTreeMap::new();
    let mut refused = 0u64;
    let mut granted = 0u64;
    let mut k = 0u32;
    for entry in 0..NENTRY {
        for elem in 0..ELEM_SIZES.len() {
            let counts = boundary_counts(ELEM_SIZES[elem]);
            for &n in counts.iter() {
                for variant in 0..3 {
                    k += 1;
                    if k % nworkers != idx {
                        continue;
                    }
                    sweep_note(&item_json(entry, elem, n, variant));
                    let o = run_item(entry, elem, n, variant);
                    if o == Outcome::NotApplicable {
                        continue;
                    }
                    out.evaluations += 1;
                    *per_entry.entry(ENTRY_NAMES[entry].to_string()).or_insert(0) += 1;
                    match &o {
                        Outcome::Ok(..) => granted += 1,
                        _ => refused += 1,
                    }
                    // non-trivial: a request on the refusing side of a boundary, or within 2 of one
                    if n > 64 {
                        out.nontrivial += 1;
                    }
                    if let Some(m) = judge(entry, elem, n, variant, &o) {
                        if out.viol.len() < 3 {
                            out.viol.push((m, item_json(entry, elem, n, variant)));
                        }
                    }
                    if out.samples.len() < 2 && idx == 0 && n > (1 << 40) {
                        out.samples.push(json!({"item": item_json(entry, elem, n, variant), "outcome": format!("{:?}", o)}));
                    }
                }
            }
        }
    }
    out.extra.insert("refused_or_panicked".into(), json!(refused));
    out.extra.insert("granted".into(), json!(granted));
    for (k, v) in per_entry {
        out.extra.insert(format!("items[{k}]"), json!(v));
    }
    out
}

pub fn replay_item(item: &Value) -> Vec<String> {
    let entry = item["entry"].as_u64().unwrap_or(0) as usize;
    let elem = item["elem"].as_u64().unwrap_or(0) as usize;
    let n: usize = item["n"].as_str().and_then(|s| s.parse().ok()).unwrap_or(0);
    let variant = item["variant"].as_u64().unwrap_or(0) as usize;
    let o = run_item(entry, elem, n, variant);
    println!("outcome: {:?}", o);
    judge(entry, elem, n, variant, &o).into_iter().collect()
}

/// The sized-T form of the multi-slice length overflow: a 2^46-byte read-only mapping reused 2^18
/// times as `&[u8]` sums to 2^64. Runs in a sacrificial child process (`arena2 c19-mmap`).
pub fn mmap_child() -> i32 {
    install_quiet_panic_hook();
    let len: usize = 1 << 46;
    let p = unsafe { libc::mmap(std::ptr::null_mut(), len, libc::PROT_READ, libc::MAP_PRIVATE | libc::MAP_ANONYMOUS | libc::MAP_NORESERVE, -1, 0) };
    if p == libc::MAP_FAILED {
        println!("SKIP: the sandbox refused a 2^46-byte MAP_NORESERVE mapping");
        return 3;
    }
    let big: &[u8] = unsafe { std::slice::from_raw_parts(p as *const u8, len) };
    let slices: Vec<&[u8]> = vec![big; 1 << 18];
    let b = Bump::new();
    let r = catch_unwind(AssertUnwindSafe(|| {
        let mut v: BVec<u8> = BVec::new_in(&b);
        v.push(1);
        v.extend_from_slices_copy(&slices);
        (v.len(), v.capacity())
    }));
    match r {
        Err(_) => {
            println!("OK: refused with a panic");
            0
        }
        Ok((len, cap)) => {
            println!("BAD: returned normally with len {len} capacity {cap}");
            1
        }
    }
}

pub struct C19Engine;

impl Engine for C19Engine {
    fn prop(&self) -> &'static str {
        "C19"
    }
    fn strategy(&self, _tier: Tier) -> BoxedStrategy<Vec<u8>> {
        // random part: (entry, elem, variant, 8 bytes of count with boundary bias)
        let count = prop_oneof![
            3 => any::<u64>(),
            2 => (0u64..4096),
            3 => (0u32..64, -3i64..=3).prop_map(|(sh, d)| ((1u128 << sh) as i128 + d as i128).clamp(0, u64::MAX as i128) as u64),
            2 => (1u64..5000, -2i64..=2).prop_map(|(div, d)| ((u64::MAX / div) as i128 + d as i128).clamp(0, u64::MAX as i128) as u64),
            2 => (1u64..5000, -2i64..=2).prop_map(|(div, d)| ((i64::MAX as u64 / div) as i128 + d as i128).clamp(0, u64::MAX as i128) as u64),
        ];
        let items = (0u8..NENTRY as u8, 0u8..ELEM_SIZES.len() as u8, 0u8..6, count).prop_map(|(e, el, v, n)| {
            let mut b = vec![e, el, v];
            b.extend_from_slice(&n.to_le_bytes());
            b
        });
        // second family (marker byte 0xFF): the collections slot machine, weighted towards growth and towards episodes
        // under an exhausted allocation limit (requests that cannot, or can only just, be satisfied); oracle: the byte
        // range a collection claims through its capacity never overlaps anything else that is live
        //  push pop ins rem swr trn clr rsz ext exs app spl drn spc ret drf ddp rsv cln iit ibs ibx fri rd  drp new byt sib shr ddb
        let w: [u32; 30] = [12, 2, 4, 2, 1, 2, 1, 3, 6, 6, 3, 2, 2, 3, 1, 1, 1, 8, 2, 1, 1, 1, 14, 0, 1, 6, 5, 6, 2, 1];
        let coll = crate::coll_eng::coll_strategy(&w, 40).prop_map(|mut v| {
            v.insert(0, 0xFF);
            v
        });
        prop_oneof![3 => items, 1 => coll].boxed()
    }
    fn run(&self, bytes: &[u8]) -> CaseOut {
        if bytes.first() == Some(&0xFF) {
            let ctx = crate::coll_eng::run_coll_case(&bytes[1..]);
            let viol: Vec<String> = ctx.viol.iter().filter(|(p, _)| *p == "C19").map(|(_, m)| m.clone()).collect();
            let other: Vec<String> = ctx.viol.iter().filter(|(p, _)| *p != "C19").map(|(p, _)| p.to_string()).collect();
            let grew = ctx.stats[crate::vec_eng::V::Reallocs as usize];
            return CaseOut { viol, other, nontrivial: grew > 0, hash: fnv(bytes), stats: vec![1, 0, 0, 0], ..Default::default() };
        }
        let g = |i: usize| bytes.get(i).cloned().unwrap_or(0);
        let entry = g(0) as usize % NENTRY;
        let elem = g(1) as usize % ELEM_SIZES.len();
        let variant = g(2) as usize;
        let mut nb = [0u8; 8];
        for i in 0..8 {
            nb[i] = g(3 + i);
        }
        let n = u64::from_le_bytes(nb) as usize;
        let o = run_item(entry, elem, n, variant);
        let mut out = CaseOut { hash: fnv(bytes), ..Default::default() };
        out.nontrivial = o != Outcome::NotApplicable && n > 4096;
        out.stats = vec![(o != Outcome::NotApplicable) as u32, matches!(o, Outcome::Ok(..)) as u32, matches!(o, Outcome::Err) as u32, matches!(o, Outcome::Panic(_)) as u32];
        if let Some(m) = judge(entry, elem, n, variant, &o) {
            out.viol.push(m);
        }
        out
    }
    fn describe(&self, bytes: &[u8]) -> Value {
        if bytes.first() == Some(&0xFF) {
            let mut d = crate::coll_eng::describe_coll(&bytes[1..]);
            d["family"] = serde_json::json!("collections slot machine under growth and exhausted-limit episodes; claimed capacity ranges must be disjoint");
            return d;
        }
        let g = |i: usize| bytes.get(i).cloned().unwrap_or(0);
        let mut nb = [0u8; 8];
        for i in 0..8 {
            nb[i] = g(3 + i);
        }
        item_json(g(0) as usize % NENTRY, g(1) as usize % ELEM_SIZES.len(), u64::from_le_bytes(nb) as usize, g(2) as usize)
    }
    fn stat_names(&self) -> Vec<&'static str> {
        vec!["applicable", "granted", "err", "panicked"]
    }
    fn cases(&self, tier: Tier) -> u32 {
        match tier {
            Tier::Quick => 3000,
            Tier::Thorough => 60000,
        }
    }
    fn rule(&self) -> String {
        "second random family: the collections slot machine weighted towards growth and exhausted-limit episodes (reservations that cannot, or can only just, be satisfied); after every step the byte ranges all live collections claim through their capacity are pairwise disjoint (non-trivial = at least one reallocation). systematic part: every size-taking entry point (24) x element size {0,1,3,8,24,4096,2^31+1} x every count within 2 of each overflow boundary (usize::MAX, usize::MAX/size, isize::MAX/size, isize::MAX rounded by 16/64/4096, 2^30, 2^31, 2^32) x 3 variants (MIN_ALIGN / alignment / pre-filled), enumerated completely; random part: proptest-generated (entry, element, variant, count) with boundary-biased counts. Oracle: outcome is Err / caught panic, or the claimed extent (len*size, capacity*size) lies inside one block the ledger shows the arena holds; a fallible entry point must not panic. non-trivial = a count above 4096 (i.e. on or near an overflow boundary rather than an ordinary small request); distinct = distinct (entry, element, variant, count). The sized-T multi-slice overflow runs in a sacrificial child with a 2^46-byte MAP_NORESERVE mapping.".into()
    }
    fn sweep(&self, tier: Tier, idx: u32, nworkers: u32) -> Option<SweepOut> {
        let mut sw = c19_sweep(tier, idx, nworkers);
        if idx == 0 {
            // sacrificial child
            let exe = std::env::current_exe().ok()?;
            let st = std::process::Command::new(exe).arg("c19-mmap").stdout(std::process::Stdio::piped()).stderr(std::process::Stdio::null()).output();
            match st {
                Ok(o) => {
                    let txt = String::from_utf8_lossy(&o.stdout).to_string();
                    sw.evaluations += 1;
                    match o.status.code() {
                        Some(0) => {
                            sw.nontrivial += 1;
                            sw.extra.insert("mmap_multi_slice_overflow".into(), json!("refused with a panic"));
                        }
                        Some(3) => {
                            sw.extra.insert("mmap_multi_slice_overflow".into(), json!("skipped: mapping refused by the sandbox"));
                        }
                        code => {
                            sw.viol.push((format!("Vec<u8>::extend_from_slices_copy with 2^18 slices of 2^46 bytes (sum 2^64) did not refuse: child {:?} {}", code, txt.trim()), json!({"mmap": true})));
                        }
                    }
                }
                Err(_) => {}
            }
        }
        Some(sw)
    }
    fn replay_sweep(&self, item: &Value) -> Vec<String> {
        if item["mmap"] == true {
            let exe = std::env::current_exe().unwrap();
            let st = std::process::Command::new(exe).arg("c19-mmap").status();
            return match st.map(|s| s.code()) {
                Ok(Some(0)) | Ok(Some(3)) => vec![],
                other => vec![format!("sized multi-slice overflow not refused: child exit {:?}", other)],
            };
        }
        replay_item(item)
    }
    fn assumptions(&self) -> Vec<String> {
        vec![
            "requests above 1 GiB are refused by the harness allocator; sizes that would really be filled (16 MiB..1 GiB) are skipped for speed".into(),
            "zero-sized element fills with astronomically large counts are excluded (they legitimately loop for the whole count)".into(),
        ]
    }
}
