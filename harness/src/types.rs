//! Harness value types: heap-free, pattern-carrying, with observable clone/default/drop.

use crate::ledger::enter_user;
use std::cell::Cell;

/// byte j of the pattern of block `id`
#[inline]
pub fn pat(id: u32, j: usize) -> u8 {
    let x = (id as u64).wrapping_mul(0x9e3779b97f4a7c15) ^ (j as u64).wrapping_mul(0xd6e8feb86659fd93);
    ((x >> 29) ^ (x >> 7)) as u8 | 1
}

pub fn fill_pat(id: u32, dst: &mut [u8]) {
    for (j, b) in dst.iter_mut().enumerate() {
        *b = pat(id, j);
    }
}

pub unsafe fn write_pat(id: u32, p: *mut u8, len: usize) {
    for j in 0..len {
        *p.add(j) = pat(id, j);
    }
}

/// Compare memory with the pattern; large blocks are sampled unless `full`.
pub unsafe fn check_pat(id: u32, p: *const u8, len: usize, full: bool) -> Option<usize> {
    if full || len <= 4096 {
        for j in 0..len {
            if *p.add(j) != pat(id, j) {
                return Some(j);
            }
        }
        None
    } else {
        for j in (0..512).chain(len - 512..len) {
            if *p.add(j) != pat(id, j) {
                return Some(j);
            }
        }
        let mut j = 512;
        while j < len - 512 {
            if *p.add(j) != pat(id, j) {
                return Some(j);
            }
            j += 61;
        }
        None
    }
}

// ---------------------------------------------------------------------------------------------
// drop ledger: fixed-size, allocation-free, thread-local

pub const NTOK: usize = 8192;
thread_local! {
    static DROPS: [Cell<u8>; NTOK] = const { [const { Cell::new(0) }; NTOK] };
    static NEXT_TOK: Cell<u32> = const { Cell::new(1) };
    static CALLS: Cell<u32> = const { Cell::new(0) };
}

pub fn tok_reset() {
    DROPS.with(|d| d.iter().for_each(|c| c.set(0)));
    NEXT_TOK.with(|n| n.set(1));
}
pub fn tok_new() -> u32 {
    NEXT_TOK.with(|n| {
        let v = n.get();
        n.set(v + 1);
        v
    })
}
pub fn tok_count() -> u32 {
    NEXT_TOK.with(|n| n.get())
}
pub fn tok_drops(id: u32) -> u8 {
    DROPS.with(|d| d[id as usize % NTOK].get())
}
fn tok_dropped(id: u32) {
    DROPS.with(|d| {
        let c = &d[id as usize % NTOK];
        c.set(c.get().saturating_add(1));
    })
}

/// An error value with identity, an observable destructor and a size/alignment chosen by N.
#[repr(C)]
pub struct ErrTok<const N: usize> {
    pub id: u32,
    pub pad: [u8; N],
}
impl<const N: usize> ErrTok<N> {
    pub fn new(id: u32) -> Self {
        ErrTok { id, pad: [0x5a; N] }
    }
}
impl<const N: usize> Drop for ErrTok<N> {
    fn drop(&mut self) {
        let _u = enter_user();
        tok_dropped(self.id);
    }
}

// ---------------------------------------------------------------------------------------------
// pattern-carrying value types for typed allocation: A<align>_<N>

pub trait PatVal: Sized {
    const N: usize;
    fn make(id: u32) -> Self;
    fn bytes(&self) -> &[u8];
}

macro_rules! aligned_ty {
    ($name:ident, $al:literal) => {
        #[repr(C, align($al))]
        #[derive(Clone, Copy)]
        pub struct $name<const N: usize>(pub [u8; N]);
        impl<const N: usize> PatVal for $name<N> {
            const N: usize = N;
            fn make(id: u32) -> Self {
                let mut v = [0u8; N];
                fill_pat(id, &mut v);
                $name(v)
            }
            fn bytes(&self) -> &[u8] {
                &self.0
            }
        }
    };
}
aligned_ty!(A1, 1);
aligned_ty!(A2, 2);
aligned_ty!(A4, 4);
aligned_ty!(A8, 8);
aligned_ty!(A16, 16);
aligned_ty!(A32, 32);
aligned_ty!(A64, 64);

/// Clone-able element that counts clone calls (payload survives clone).
#[derive(Debug, PartialEq, Eq)]
pub struct Cl(pub u32);
impl Clone for Cl {
    fn clone(&self) -> Self {
        let _u = enter_user();
        CALLS.with(|c| c.set(c.get() + 1));
        Cl(self.0)
    }
}
/// Default-able element that counts default calls.
#[derive(Debug, PartialEq, Eq)]
pub struct Df(pub u64);
impl Default for Df {
    fn default() -> Self {
        let _u = enter_user();
        CALLS.with(|c| c.set(c.get() + 1));
        Df(0x0df0_0df0_0df0_0df0)
    }
}
pub fn calls_reset() {
    CALLS.with(|c| c.set(0));
}
pub fn calls() -> u32 {
    CALLS.with(|c| c.get())
}
pub fn calls_inc() {
    CALLS.with(|c| c.set(c.get() + 1));
}

// ---------------------------------------------------------------------------------------------
// error tokens with a chosen alignment (so that Result<T, E> has exactly that alignment)

pub trait Tok: Sized {
    fn new(id: u32) -> Self;
    fn id(&self) -> u32;
}
impl<const N: usize> Tok for ErrTok<N> {
    fn new(id: u32) -> Self {
        ErrTok::new(id)
    }
    fn id(&self) -> u32 {
        self.id
    }
}
macro_rules! aligned_tok {
    ($name:ident, $al:literal) => {
        #[repr(C, align($al))]
        pub struct $name {
            pub id: [u8; 4],
        }
        impl Tok for $name {
            fn new(id: u32) -> Self {
                $name { id: id.to_ne_bytes() }
            }
            fn id(&self) -> u32 {
                u32::from_ne_bytes(self.id)
            }
        }
        impl Drop for $name {
            fn drop(&mut self) {
                let _u = enter_user();
                tok_dropped(u32::from_ne_bytes(self.id));
            }
        }
    };
}
aligned_tok!(Et1, 1);
aligned_tok!(Et2, 2);
aligned_tok!(Et4, 4);
aligned_tok!(Et8, 8);
aligned_tok!(Et16, 16);
aligned_tok!(Et32, 32);

/// plain words whose bytes come from the block pattern
pub trait Word: Copy + PartialEq + std::fmt::Debug + 'static {
    fn from_pat(id: u32, idx: usize) -> Self;
}
macro_rules! word {
    ($t:ty) => {
        impl Word for $t {
            fn from_pat(id: u32, idx: usize) -> Self {
                const S: usize = std::mem::size_of::<$t>();
                let mut b = [0u8; S];
                for j in 0..S {
                    b[j] = pat(id, idx * S + j);
                }
                <$t>::from_ne_bytes(b)
            }
        }
    };
}
word!(u8);
word!(u16);
word!(u32);
word!(u64);
word!(u128);
