//! Collections interpreter, Vec part (C13, C15): a slot machine of arena vectors mirrored by std
//! vectors; every operation runs on both sides under catch_unwind and the outcomes are compared.

use crate::celem::*;
use crate::ledger::{self, enter_arena};
use crate::runner::*;
use crate::sim::panic_msg;
use crate::types::{check_pat, write_pat};
use bumpalo::collections::{CollectIn, String as BString, Vec as BVec};
use bumpalo::Bump;
use proptest::prelude::*;
use proptest::strategy::BoxedStrategy;
use serde_json::{json, Value};
use std::ops::Bound;
use std::panic::{catch_unwind, AssertUnwindSafe};

pub struct VSlot<'b, A: Elem, B: Elem> {
    pub s: BVec<'b, A>,
    pub t: Vec<B>,
    /// the largest `len + additional` a successful reserve / with_capacity has promised since the last explicit
    /// shrink (shrink_to_fit) or wholesale assignment (clone_from): the capacity may not fall below it
    pub promised: usize,
}

impl<'b, A: Elem, B: Elem> VSlot<'b, A, B> {
    pub fn new(s: BVec<'b, A>, t: Vec<B>) -> Self {
        VSlot { s, t, promised: 0 }
    }
    pub fn check_promise(&self, ctx: &mut Ctx, what: &str) {
        if std::mem::size_of::<A>() > 0 && self.s.capacity() < self.promised {
            let m = format!("after {what} the capacity is {} although an earlier reserve/with_capacity promised room for {} elements and nothing shrank the vector since", self.s.capacity(), self.promised);
            ctx.v("C18", m.clone());
            ctx.v("C13", m);
        }
    }
}

pub enum Slot<'b> {
    E(VSlot<'b, El<0>, El<1>>),
    B(VSlot<'b, u8, u8>),
    Z(VSlot<'b, Zs<0>, Zs<1>>),
    S { s: BString<'b>, t: String },
    Bx { s: bumpalo::boxed::Box<'b, [El<0>]>, t: Box<[El<1>]> },
    Canary { ptr: usize, len: usize, id: u32 },
    /// a slice obtained from into_bump_slice(_mut): must stay valid and unchanged for the arena's life
    LeakedE { s: &'b [El<0>], t: &'static [El<1>] },
    LeakedB { s: &'b [u8], t: &'static [u8], from_string: bool },
    Dead,
}

pub const VST_NAMES: [&str; 16] = [
    "ops", "both_panicked", "boundary_args", "growing_collections_interleaved", "iter_dropped_partway", "iter_forgotten",
    "conversions", "reallocations", "drop_events_subject", "slots_created", "zst_ops", "byte_vec_ops", "string_ops",
    "drain_filter_ops", "splice_ops", "leaks_on_purpose",
];
#[derive(Clone, Copy)]
#[repr(usize)]
pub enum V {
    Ops,
    BothPanicked,
    Boundary,
    Interleaved,
    IterPartial,
    IterForgot,
    Conversions,
    Reallocs,
    Drops,
    Slots,
    Zst,
    Bytes,
    Strings,
    DrainFilter,
    Splice,
    Leaks,
}

pub struct Ctx {
    pub viol: Vec<(&'static str, String)>,
    pub stats: [u32; 16],
    pub step: usize,
    pub drop_pos: [usize; 2],
    pub last_grower: usize,
    pub counter: u32,
    /// property that value/panic disagreements of the current operation count for
    pub tag: &'static str,
}

impl Ctx {
    pub fn new() -> Self {
        Ctx { viol: vec![], stats: [0; 16], step: 0, drop_pos: [0; 2], last_grower: usize::MAX, counter: 0, tag: "C13" }
    }
    pub fn v(&mut self, prop: &'static str, msg: String) {
        // (robust against being called in arena mode: the message is re-created in user mode)
        let _u = crate::ledger::enter_user();
        if self.viol.len() < 16 {
            self.viol.push((prop, format!("step {}: {}", self.step, msg)));
        }
        drop(msg);
    }
    pub fn st(&mut self, s: V) {
        self.stats[s as usize] += 1;
    }
    pub fn next_val(&mut self, c: u8) -> u32 {
        self.counter += 1;
        // small payload space so that dedup/retain/contains find matches
        (c as u32) % 12
    }

    /// Run `fs` (subject, arena mode) and `ft` (reference) under catch_unwind and compare.
    pub fn both<R: PartialEq + std::fmt::Debug>(&mut self, name: &str, fs: impl FnOnce() -> R, ft: impl FnOnce() -> R) -> Option<R> {
        let rs = {
            let _g = enter_arena(1);
            catch_unwind(AssertUnwindSafe(fs))
        };
        let rt = catch_unwind(AssertUnwindSafe(ft));
        match (rs, rt) {
            (Ok(a), Ok(b)) => {
                if a != b {
                    self.v(self.tag, format!("{name}: returned {:?} but std returned {:?}", a, b));
                }
                Some(a)
            }
            (Err(_), Err(_)) => {
                self.st(V::BothPanicked);
                None
            }
            (Ok(a), Err(e)) => {
                self.v(self.tag, format!("{name}: returned {:?} where std panics ({})", a, panic_msg(e)));
                None
            }
            (Err(e), Ok(b)) => {
                self.v(self.tag, format!("{name}: panicked ({}) where std returns {:?}", panic_msg(e), b));
                None
            }
        }
    }
}

pub fn idx_arg(ctx: &mut Ctx, sel: u8, fine: u8, len: usize) -> usize {
    if sel < 150 {
        (fine as usize * (len + 1)) >> 8
    } else {
        ctx.st(V::Boundary);
        match sel % 8 {
            0 => 0,
            1 => 1,
            2 => len.wrapping_sub(1),
            3 => len,
            4 => len + 1,
            5 => usize::MAX - 1,
            6 => usize::MAX,
            _ => len + 2 + fine as usize,
        }
    }
}

pub fn range_arg(ctx: &mut Ctx, kind: u8, a: u8, b: u8, len: usize) -> (Bound<usize>, Bound<usize>) {
    let x = idx_arg(ctx, a, b, len);
    let y = idx_arg(ctx, b.wrapping_mul(3) ^ a, a.wrapping_add(b), len);
    let (lo, hi) = if kind & 0x40 == 0 && x > y && y <= len { (y, x) } else { (x, y) };
    let start = match kind % 3 {
        0 => Bound::Included(lo),
        1 => Bound::Unbounded,
        _ => Bound::Excluded(lo),
    };
    let end = match (kind / 3) % 3 {
        0 => Bound::Excluded(hi),
        1 => Bound::Unbounded,
        _ => Bound::Included(hi),
    };
    (start, end)
}

fn vals<T: Elem>(v: &[T]) -> Vec<u32> {
    v.iter().map(|x| x.val()).collect()
}

pub trait Pair: 'static {
    type A: Elem + Clone;
    type B: Elem + Clone;
    fn wrap<'b>(v: VSlot<'b, Self::A, Self::B>) -> Slot<'b>;
    fn leaked<'b>(_s: &'b [Self::A], _t: &'static [Self::B]) -> After<'b> {
        After::Dead
    }
}
pub struct PE;
impl Pair for PE {
    type A = El<0>;
    type B = El<1>;
    fn wrap<'b>(v: VSlot<'b, El<0>, El<1>>) -> Slot<'b> {
        Slot::E(v)
    }
    fn leaked<'b>(s: &'b [El<0>], t: &'static [El<1>]) -> After<'b> {
        After::Replace(Slot::LeakedE { s, t })
    }
}
pub struct PB;
impl Pair for PB {
    type A = u8;
    type B = u8;
    fn wrap<'b>(v: VSlot<'b, u8, u8>) -> Slot<'b> {
        Slot::B(v)
    }
    fn leaked<'b>(s: &'b [u8], t: &'static [u8]) -> After<'b> {
        After::Replace(Slot::LeakedB { s, t, from_string: false })
    }
}
pub struct PZ;
impl Pair for PZ {
    type A = Zs<0>;
    type B = Zs<1>;
    fn wrap<'b>(v: VSlot<'b, Zs<0>, Zs<1>>) -> Slot<'b> {
        Slot::Z(v)
    }
}

pub const NVOPS: u8 = 30;
pub const VOP_NAMES: [&str; NVOPS as usize] = [
    "push", "pop", "insert", "remove", "swap_remove", "truncate", "clear", "resize", "extend", "extend_from_slice", "append",
    "split_off", "drain", "splice", "retain", "drain_filter", "dedup", "reserve", "clone", "into_iter", "into_bump_slice",
    "into_boxed_slice", "from_iter", "read_api", "drop_slot", "new_vec", "bytes_ops", "sibling_growth", "shrink_to_fit", "dedup_by",
];

/// an iterator whose size_hint is not to be trusted (the trait is safe; hints may be loose or plainly wrong)
pub struct Hinted<I> {
    pub it: I,
    pub lo: usize,
    pub hi: Option<usize>,
}
impl<I: Iterator> Iterator for Hinted<I> {
    type Item = I::Item;
    fn next(&mut self) -> Option<I::Item> {
        self.it.next()
    }
    fn size_hint(&self) -> (usize, Option<usize>) {
        (self.lo, self.hi)
    }
}
/// hint modes for an iterator of `n` items: exact, loose, lower bound too high, no information, upper bound too low
pub fn hint_for(mode: u8, n: usize) -> (usize, Option<usize>) {
    match mode % 5 {
        0 => (n, Some(n)),
        1 => (0, Some(n + 40)),
        2 => (n + 3, None),
        3 => (0, None),
        _ => (n.saturating_sub(2), Some(n.saturating_sub(1))),
    }
}

pub enum After<'b> {
    Keep,
    /// the slot was consumed
    Dead,
    New(Slot<'b>),
    Replace(Slot<'b>),
}

/// One operation on a vector slot. `other` is a second slot of the same kind for append.
pub fn vec_op<'b, P: Pair>(ctx: &mut Ctx, bump: &'b Bump, v: &mut VSlot<'b, P::A, P::B>, code: u8, a: u8, b: u8, c: u8) -> After<'b> {
    let len = v.t.len();
    let cap_before = v.s.capacity();
    let ptr_before = v.s.as_ptr() as usize;
    let mut after = After::Keep;
    let VSlot { s, t, promised } = v;
    match code {
        0 => {
            let x = ctx.next_val(c);
            ctx.both("push", || s.push(P::A::make(x)), || t.push(P::B::make(x)));
            if len < cap_before && std::mem::size_of::<P::A>() > 0 && s.as_ptr() as usize != ptr_before {
                ctx.v("C18", format!("push with len {len} < capacity {cap_before} moved the buffer"));
            }
        }
        1 => {
            ctx.both("pop", || s.pop().map(|x| x.val()), || t.pop().map(|x| x.val()));
        }
        2 => {
            let i = idx_arg(ctx, a, b, len);
            let x = ctx.next_val(c);
            ctx.both(&format!("insert({i}) on len {len}"), || s.insert(i, P::A::make(x)), || t.insert(i, P::B::make(x)));
        }
        3 => {
            let i = idx_arg(ctx, a, b, len);
            ctx.both(&format!("remove({i}) on len {len}"), || s.remove(i).val(), || t.remove(i).val());
        }
        4 => {
            let i = idx_arg(ctx, a, b, len);
            ctx.both(&format!("swap_remove({i}) on len {len}"), || s.swap_remove(i).val(), || t.swap_remove(i).val());
        }
        5 => {
            let n = idx_arg(ctx, a, b, len);
            ctx.both(&format!("truncate({n}) on len {len}"), || s.truncate(n), || t.truncate(n));
        }
        6 => {
            ctx.both("clear", || s.clear(), || t.clear());
        }
        7 => {
            // a zero-sized element type legitimately loops for the whole count: keep those small
            let n = if a >= 250 && std::mem::size_of::<P::A>() > 0 { usize::MAX - (a as usize - 250) } else { (b as usize) % (len + 20) };
            let x = ctx.next_val(c);
            // sometimes the element's Clone panics part-way: the vector must be left like std's
            let bomb = if c & 0xC0 == 0xC0 && n < 1000 { 1 + (c as u32 & 3) } else { 0 };
            arm_clone_bombs(bomb);
            ctx.both(&format!("resize({n}) on len {len}{}", if bomb > 0 { format!(" with Clone panicking at call {bomb}") } else { String::new() }), || s.resize(n, P::A::make(x)), || t.resize(n, P::B::make(x)));
            arm_clone_bombs(0);
        }
        8 => {
            let k = (a % 12) as usize;
            let xs: Vec<u32> = (0..k).map(|j| ctx.next_val(c.wrapping_add(j as u8 * 5))).collect();
            let inexact = b & 1 == 1;
            let xs2 = xs.clone();
            let (lo, hi) = hint_for(b >> 1, k);
            let lying = b & 0x60 == 0x60;
            // one extend in eight is fed by an iterator that itself allocates in the same arena between the items (a parser
            // interning names while it collects them): the vector must cope with its buffer no longer being the newest
            // allocation, and what the iterator allocated must stay intact and outside the vector's buffer
            let allocating = !lying && b & 0x1c == 0x1c;
            let side: std::cell::Cell<[(usize, usize); 12]> = std::cell::Cell::new([(0, 0); 12]);
            let nside = std::cell::Cell::new(0usize);
            ctx.both(
                &format!("extend({k} items, size_hint ({lo}, {hi:?}){}{})", if lying { " as reported by the iterator" } else { "" }, if allocating { ", the iterator allocates in the arena" } else { "" }),
                || {
                    let it = xs.iter().enumerate().map(|(j, &x)| {
                        if allocating {
                            let len = 5 + 3 * j;
                            let p = bump.alloc_layout(std::alloc::Layout::from_size_align(len, 1 << (j % 4)).unwrap()).as_ptr();
                            unsafe { std::ptr::write_bytes(p, 0xA0 + j as u8, len) };
                            let mut sd = side.get();
                            sd[j] = (p as usize, len);
                            side.set(sd);
                            nside.set(j + 1);
                        }
                        P::A::make(x)
                    });
                    if lying {
                        s.extend(Hinted { it, lo, hi })
                    } else if inexact {
                        s.extend(it.filter(|_| true))
                    } else {
                        s.extend(it)
                    }
                },
                || {
                    let it = xs2.iter().map(|&x| P::B::make(x));
                    if lying {
                        t.extend(Hinted { it, lo, hi })
                    } else if inexact {
                        t.extend(it.filter(|_| true))
                    } else {
                        t.extend(it)
                    }
                },
            );
            if allocating {
                let buf = (s.as_ptr() as usize, s.capacity() * std::mem::size_of::<P::A>());
                for j in 0..nside.get() {
                    let (p, len) = side.get()[j];
                    let bytes = unsafe { std::slice::from_raw_parts(p as *const u8, len) };
                    if bytes.iter().any(|&x| x != 0xA0 + j as u8) {
                        ctx.v("C13", format!("extend fed by an iterator that allocates in the same arena: the block the iterator allocated at item {j} ({len} bytes) was overwritten"));
                    }
                    if buf.1 > 0 && p < buf.0 + buf.1 && buf.0 < p + len {
                        ctx.v("C13", format!("extend fed by an iterator that allocates in the same arena: the vector's buffer ({:#x}, {} bytes) overlaps the block the iterator allocated at item {j} ({p:#x}, {len} bytes)", buf.0, buf.1));
                    }
                }
            }
        }
        9 => {
            let k = (a % 12) as usize;
            let src_s: Vec<P::A> = (0..k).map(|j| P::A::make((c as u32 + j as u32) % 12)).collect();
            let src_t: Vec<P::B> = (0..k).map(|j| P::B::make((c as u32 + j as u32) % 12)).collect();
            let bomb = if b & 0xC0 == 0xC0 { 1 + (b as u32 & 7) } else { 0 };
            arm_clone_bombs(bomb);
            ctx.both("extend_from_slice", || s.extend_from_slice(&src_s), || t.extend_from_slice(&src_t));
            arm_clone_bombs(0);
        }
        11 => {
            let at = idx_arg(ctx, a, b, len);
            let r = {
                let rs = {
                    let _g = enter_arena(1);
                    catch_unwind(AssertUnwindSafe(|| s.split_off(at)))
                };
                let rt = catch_unwind(AssertUnwindSafe(|| t.split_off(at)));
                match (rs, rt) {
                    (Ok(ns), Ok(nt)) => Some((ns, nt)),
                    (Err(_), Err(_)) => {
                        ctx.st(V::BothPanicked);
                        None
                    }
                    (Ok(ns), Err(_)) => {
                        ctx.v("C13", format!("split_off({at}) on len {len} returned where std panics"));
                        let _g = enter_arena(1);
                        drop(ns);
                        None
                    }
                    (Err(e), Ok(_)) => {
                        ctx.v("C13", format!("split_off({at}) on len {len} panicked ({}) where std returns", panic_msg(e)));
                        None
                    }
                }
            };
            if let Some((ns, nt)) = r {
                after = After::New(P::wrap(VSlot::new(ns, nt)));
            }
        }
        12 => {
            // drain(range) with a consumption pattern
            let range = range_arg(ctx, c, a, b, len);
            let front = (a >> 4) as usize % 5;
            let back = (b >> 4) as usize % 4;
            let forget = c & 0x80 != 0 && c & 0x08 != 0;
            let name = format!("drain({:?}) on len {len}, take {front} front / {back} back, {}", range, if forget { "forget" } else { "drop" });
            if forget {
                ctx.st(V::IterForgot);
            } else if front + back > 0 {
                ctx.st(V::IterPartial);
            }
            ctx.both(
                &name,
                || {
                    let mut d = s.drain(range);
                    let mut got = vec![];
                    {
                        let _u = ledger::enter_user();
                        got.reserve(8);
                    }
                    if c & 0x30 == 0x30 {
                        got.push(d.nth(1).map(|x| x.val()).unwrap_or(999));
                    }
                    for _ in 0..front {
                        if let Some(x) = d.next() {
                            got.push(x.val());
                        }
                    }
                    for _ in 0..back {
                        if let Some(x) = d.next_back() {
                            got.push(x.val());
                        }
                    }
                    if forget {
                        std::mem::forget(d);
                    }
                    got
                },
                || {
                    let mut d = t.drain(range);
                    let mut got = Vec::with_capacity(8);
                    if c & 0x30 == 0x30 {
                        got.push(d.nth(1).map(|x| x.val()).unwrap_or(999));
                    }
                    for _ in 0..front {
                        if let Some(x) = d.next() {
                            got.push(x.val());
                        }
                    }
                    for _ in 0..back {
                        if let Some(x) = d.next_back() {
                            got.push(x.val());
                        }
                    }
                    if forget {
                        std::mem::forget(d);
                    }
                    got
                },
            );
        }
        13 => {
            let range = range_arg(ctx, c, a, b, len);
            let k = (a % 7) as usize;
            let take = (b % 4) as usize;
            ctx.st(V::Splice);
            let xs: Vec<u32> = (0..k).map(|j| (c as u32 + 3 * j as u32) % 12).collect();
            let xs2 = xs.clone();
            let inexact = c & 0x20 != 0;
            let lying = c & 0x0C == 0x0C;
            let (hlo, hhi) = hint_for(a >> 3, k);
            let name = format!("splice({:?}, {k} new{}) on len {len}, take {take}", range, if lying { format!(", size hint ({hlo}, {hhi:?}) as reported by the iterator") } else if inexact { ", inexact size hint".to_string() } else { String::new() });
            ctx.both(
                &name,
                || {
                    let it: Box<dyn Iterator<Item = P::A>> = {
                        let _u = ledger::enter_user();
                        if lying {
                            Box::new(Hinted { it: xs.into_iter().map(|x| P::A::make(x)), lo: hlo, hi: hhi })
                        } else if inexact {
                            Box::new(xs.into_iter().map(|x| P::A::make(x)).filter(|_| true))
                        } else {
                            Box::new(xs.into_iter().map(|x| P::A::make(x)))
                        }
                    };
                    let mut sp = s.splice(range, it);
                    let mut got = {
                        let _u = ledger::enter_user();
                        Vec::with_capacity(8)
                    };
                    for _ in 0..take {
                        if let Some(x) = sp.next() {
                            got.push(x.val());
                        }
                    }
                    if c & 0x10 != 0 {
                        got.push(sp.len() as u32);
                        if let Some(x) = sp.next_back() {
                            got.push(x.val());
                        }
                    }
                    drop(sp);
                    got
                },
                || {
                    let it: Box<dyn Iterator<Item = P::B>> = if lying { Box::new(Hinted { it: xs2.into_iter().map(|x| P::B::make(x)), lo: hlo, hi: hhi }) } else if inexact { Box::new(xs2.into_iter().map(|x| P::B::make(x)).filter(|_| true)) } else { Box::new(xs2.into_iter().map(|x| P::B::make(x))) };
                    let mut sp = t.splice(range, it);
                    let mut got = Vec::with_capacity(8);
                    for _ in 0..take {
                        if let Some(x) = sp.next() {
                            got.push(x.val());
                        }
                    }
                    if c & 0x10 != 0 {
                        got.push(sp.len() as u32);
                        if let Some(x) = sp.next_back() {
                            got.push(x.val());
                        }
                    }
                    drop(sp);
                    got
                },
            );
        }
        14 => {
            let m = 2 + (a % 4) as u32;
            let r = (b as u32) % m;
            // sometimes the destructor of a removed element panics: what is left in the vector must be what std leaves
            let bomb = if c & 0xC0 == 0xC0 { 1 + (c as u32 & 3) } else { 0 };
            crate::celem::arm_drop_bombs(bomb);
            ctx.both(&format!("retain{}", if bomb > 0 { format!(" with the destructor of the {bomb}. removed element panicking") } else { String::new() }), || s.retain(|x| x.val() % m != r), || t.retain(|x| x.val() % m != r));
            crate::celem::arm_drop_bombs(0);
        }
        15 => {
            // drain_filter: caller takes `take` items, then drops (finishing the filter) or forgets
            let m = 2 + (a % 4) as u32;
            let r = (b as u32) % m;
            let take = (c % 5) as usize;
            let forget = c & 0xC0 == 0xC0;
            ctx.st(V::DrainFilter);
            if forget {
                ctx.st(V::IterForgot);
            } else {
                ctx.st(V::IterPartial);
            }
            let name = format!("drain_filter(val % {m} == {r}) on len {len}, take {take}, {}", if forget { "forget" } else { "drop" });
            ctx.both(
                &name,
                || {
                    let mut d = s.drain_filter(|x| x.val() % m == r);
                    let mut got = {
                        let _u = ledger::enter_user();
                        Vec::with_capacity(8)
                    };
                    for _ in 0..take {
                        if let Some(x) = d.next() {
                            got.push(x.val());
                        }
                    }
                    if forget {
                        std::mem::forget(d);
                    }
                    got
                },
                || {
                    // documented meaning: yields the matching elements in order; dropping the iterator
                    // removes the remaining matching ones; forgetting it leaks everything not yet yielded
                    let all: Vec<P::B> = std::mem::take(t);
                    let mut got = Vec::with_capacity(8);
                    let mut yielded = 0;
                    for x in all {
                        if x.val() % m == r {
                            if yielded < take {
                                yielded += 1;
                                got.push(x.val());
                                drop(x);
                            } else if forget {
                                std::mem::forget(x);
                            } else {
                                drop(x);
                            }
                        } else if forget {
                            std::mem::forget(x);
                        } else {
                            t.push(x);
                        }
                    }
                    got
                },
            );
        }
        16 => {
            ctx.both("dedup", || s.dedup(), || t.dedup());
        }
        29 => {
            if a & 1 == 0 {
                let m = 1 + (b % 4) as u32;
                if c & 1 == 0 {
                    ctx.both("dedup_by_key", || s.dedup_by_key(|x| x.val() / m), || t.dedup_by_key(|x| x.val() / m));
                } else {
                    // a key function that also writes through the &mut it receives
                    ctx.both(
                        "dedup_by_key (mutating key)",
                        || {
                            s.dedup_by_key(|x| {
                                let k = x.val() / m;
                                x.set_val((x.val() + 1) % 12);
                                k
                            })
                        },
                        || {
                            t.dedup_by_key(|x| {
                                let k = x.val() / m;
                                x.set_val((x.val() + 1) % 12);
                                k
                            })
                        },
                    );
                }
            } else {
                let m = 1 + (b % 3) as u32;
                match c % 4 {
                    0 => {
                        ctx.both("dedup_by (symmetric)", || s.dedup_by(|x, y| x.val() % m == y.val() % m), || t.dedup_by(|x, y| x.val() % m == y.val() % m));
                    }
                    1 => {
                        // asymmetric relation: the first argument is the later element, the second the one that stays
                        ctx.both("dedup_by (a == b + 1)", || s.dedup_by(|x, y| x.val() == y.val() + 1), || t.dedup_by(|x, y| x.val() == y.val() + 1));
                    }
                    2 => {
                        // merge-runs idiom: mutate the element that stays through the &mut it is handed
                        ctx.both(
                            "dedup_by (merging into the kept element)",
                            || {
                                s.dedup_by(|x, y| {
                                    if x.val() % m == y.val() % m {
                                        let nv = (y.val() + x.val() + 1) % 12;
                                        y.set_val(nv);
                                        true
                                    } else {
                                        false
                                    }
                                })
                            },
                            || {
                                t.dedup_by(|x, y| {
                                    if x.val() % m == y.val() % m {
                                        let nv = (y.val() + x.val() + 1) % 12;
                                        y.set_val(nv);
                                        true
                                    } else {
                                        false
                                    }
                                })
                            },
                        );
                    }
                    _ => {
                        // record which element arrives in which position
                        ctx.both(
                            "dedup_by (argument order)",
                            || {
                                let mut seen = {
                                    let _u = ledger::enter_user();
                                    Vec::with_capacity(64)
                                };
                                s.dedup_by(|x, y| {
                                    let _u = ledger::enter_user();
                                    seen.push((x.val(), y.val()));
                                    x.val() == y.val()
                                });
                                seen
                            },
                            || {
                                let mut seen = Vec::with_capacity(64);
                                t.dedup_by(|x, y| {
                                    seen.push((x.val(), y.val()));
                                    x.val() == y.val()
                                });
                                seen
                            },
                        );
                    }
                }
            }
        }
        17 => {
            let n = if b >= 252 { usize::MAX - (b as usize - 252) } else { (b as usize) % 70 };
            match a % 4 {
                0 => {
                    ctx.both(&format!("reserve({n})"), || s.reserve(n), || t.reserve(n));
                }
                1 => {
                    ctx.both(&format!("reserve_exact({n})"), || s.reserve_exact(n), || t.reserve_exact(n));
                }
                2 => {
                    ctx.both(&format!("try_reserve({n})"), || s.try_reserve(n).is_ok(), || t.try_reserve(n).is_ok());
                }
                _ => {
                    ctx.both(&format!("try_reserve_exact({n})"), || s.try_reserve_exact(n).is_ok(), || t.try_reserve_exact(n).is_ok());
                }
            }
            if s.len() == len && n < 100 && s.capacity() < len + n {
                ctx.v("C13", format!("after reserve({n}) on len {len} the capacity is only {}", s.capacity()));
            }
            if s.len() == len && n < 100 && s.capacity() >= len + n {
                *promised = (*promised).max(len + n);
            }
        }
        28 => {
            ctx.both("shrink_to_fit", || s.shrink_to_fit(), || t.shrink_to_fit());
            *promised = 0;
        }
        18 => {
            let rs = {
                let _g = enter_arena(1);
                catch_unwind(AssertUnwindSafe(|| s.clone()))
            };
            let nt = t.clone();
            match rs {
                Ok(ns) => after = After::New(P::wrap(VSlot::new(ns, nt))),
                Err(e) => ctx.v("C13", format!("clone panicked: {}", panic_msg(e))),
            }
        }
        23 => {
            // read-only API
            let i = idx_arg(ctx, a, b, len);
            ctx.both(&format!("get({i})"), || s.get(i).map(|x| x.val()), || t.get(i).map(|x| x.val()));
            ctx.both(&format!("index [{i}]"), || s[i].val(), || t[i].val());
            ctx.both("first/last/len/is_empty", || (s.first().map(|x| x.val()), s.last().map(|x| x.val()), s.len(), s.is_empty()), || (t.first().map(|x| x.val()), t.last().map(|x| x.val()), t.len(), t.is_empty()));
            let range = range_arg(ctx, c, a, b, len);
            ctx.both(&format!("slice index {:?}", range), || vals(&s[range]), || vals(&t[range]));
            ctx.both("iter().rev()", || s.iter().rev().map(|x| x.val()).collect::<Vec<_>>(), || t.iter().rev().map(|x| x.val()).collect::<Vec<_>>());
            ctx.both("debug fmt", || format!("{:?}", s), || format!("{:?}", t));
            {
                // iterator views on plain copies of the contents: Debug of IntoIter / Drain, IntoIter::as_mut_slice, the size hints
                // of Drain and DrainFilter, comparisons with arrays and mutable slices
                let plain: Vec<u32> = t.iter().map(|x| x.val()).collect();
                let mk = || {
                    let _g = enter_arena(1);
                    BVec::from_iter_in(plain.iter().cloned(), bump)
                };
                let take = (a as usize >> 5) % 3;
                let range = range_arg(ctx, c, a, b, len);
                let (ps, pt) = (mk(), plain.clone());
                ctx.both(
                    "IntoIter: Debug, as_slice, as_mut_slice, size_hint",
                    move || {
                        let mut it = ps.into_iter();
                        for _ in 0..take {
                            it.next();
                        }
                        let d1 = format!("{:?}", it);
                        it.as_mut_slice().reverse();
                        if let Some(x) = it.as_mut_slice().first_mut() {
                            *x += 100;
                        }
                        let view = it.as_slice().to_vec();
                        (d1, view, it.size_hint(), it.collect::<Vec<u32>>())
                    },
                    move || {
                        let mut it = pt.into_iter();
                        for _ in 0..take {
                            it.next();
                        }
                        let d1 = format!("{:?}", it);
                        it.as_mut_slice().reverse();
                        if let Some(x) = it.as_mut_slice().first_mut() {
                            *x += 100;
                        }
                        let view = it.as_slice().to_vec();
                        (d1, view, it.size_hint(), it.collect::<Vec<u32>>())
                    },
                );
                let (mut ps, mut pt) = (mk(), plain.clone());
                ctx.both(
                    &format!("Drain({:?}): Debug and size_hint, before and after taking {take}", range),
                    || {
                        let mut d = ps.drain(range);
                        let h0 = d.size_hint();
                        for _ in 0..take {
                            d.next();
                        }
                        (format!("{:?}", d), h0, d.size_hint(), d.len())
                    },
                    || {
                        let mut d = pt.drain(range);
                        let h0 = d.size_hint();
                        for _ in 0..take {
                            d.next();
                        }
                        (format!("{:?}", d), h0, d.size_hint(), d.len())
                    },
                );
                {
                    // DrainFilter has no std twin: its size hint must bracket what it will really yield
                    let mut ps = mk();
                    let n = ps.len();
                    let (lo, hi, yielded) = {
                        let _g = enter_arena(1);
                        let mut df = ps.drain_filter(|x| *x % 2 == 0);
                        for _ in 0..take {
                            df.next();
                        }
                        let (lo, hi) = df.size_hint();
                        (lo, hi, df.count())
                    };
                    if lo > yielded || hi.map_or(false, |h| h < yielded) || hi.map_or(false, |h| h > n) {
                        ctx.v("C13", format!("DrainFilter::size_hint() = ({lo}, {hi:?}) but {yielded} more items were yielded (vector of {n})"));
                    }
                }
                let (ps, pt) = (mk(), plain.clone());
                let arr3: [u32; 3] = [plain.first().cloned().unwrap_or(0), plain.get(1).cloned().unwrap_or(1), if c & 1 == 0 { plain.get(2).cloned().unwrap_or(2) } else { 77 }];
                let mut ms1 = plain.clone();
                let mut ms2 = plain.clone();
                if c & 2 != 0 {
                    ms1.push(5);
                    ms2.push(5);
                }
                ctx.both(
                    "== / != against arrays, array references and mutable slices",
                    || (ps == arr3, ps == &arr3, ps != arr3, ps == &mut ms1[..], ps != &mut ms1[..], ps == [0u32; 0], ps == &plain[..]),
                    || (pt == arr3, pt == &arr3, pt != arr3, pt == &mut ms2[..], pt != &mut ms2[..], pt == [0u32; 0], pt == &plain[..]),
                );
            }
            // trait forwarding: comparisons with slices, hashing by value, reference iteration, AsRef/Borrow
            let probe_s: Vec<P::A> = (0..len.min(3)).map(|j| P::A::make((c as u32 + j as u32) % 12)).collect();
            let probe_t: Vec<P::B> = (0..len.min(3)).map(|j| P::B::make((c as u32 + j as u32) % 12)).collect();
            ctx.both("== / != against a slice and a std Vec", || (**s == probe_s[..], s.as_slice() != &probe_s[..], s.starts_with(&probe_s[..probe_s.len().min(1)])), || (**t == probe_t[..], t.as_slice() != &probe_t[..], t.starts_with(&probe_t[..probe_t.len().min(1)])));
            ctx.both("for x in &vec / iter().count / contains", || ((&*s).into_iter().map(|x| x.val()).sum::<u32>(), s.iter().count(), s.iter().any(|x| x.val() == 3)), || ((&*t).into_iter().map(|x| x.val()).sum::<u32>(), t.iter().count(), t.iter().any(|x| x.val() == 3)));
            {
                use std::borrow::Borrow;
                let vref: &BVec<P::A> = &*s;
                let bs: &[P::A] = Borrow::<[P::A]>::borrow(vref);
                let rs: &[P::A] = AsRef::<[P::A]>::as_ref(&*s);
                if vals(bs) != vals(t.as_slice()) || vals(rs) != vals(t.as_slice()) {
                    ctx.v("C13", "Borrow<[T]> / AsRef<[T]> give a different slice".into());
                }
            }
            ctx.both("position/rposition/binary_search_by_key/windows", || (s.iter().position(|x| x.val() == c as u32 % 12), s.iter().rposition(|x| x.val() == c as u32 % 12), s.windows(2).count(), s.chunks(3).map(|c| c.len()).collect::<Vec<_>>()), || (t.iter().position(|x| x.val() == c as u32 % 12), t.iter().rposition(|x| x.val() == c as u32 % 12), t.windows(2).count(), t.chunks(3).map(|c| c.len()).collect::<Vec<_>>()));
            // in-place mutation through the exclusive views
            ctx.both(
                "iter_mut / as_mut_slice / first_mut / swap / reverse / rotate",
                || {
                    for x in s.iter_mut().step_by(2) {
                        let v = (x.val() + 1) % 12;
                        x.set_val(v);
                    }
                    if s.len() >= 2 {
                        let n = s.len();
                        s.as_mut_slice().swap(0, n - 1);
                        s.reverse();
                        s.rotate_left(1);
                    }
                    if let Some(x) = s.first_mut() {
                        x.set_val(5);
                    }
                },
                || {
                    for x in t.iter_mut().step_by(2) {
                        let v = (x.val() + 1) % 12;
                        x.set_val(v);
                    }
                    if t.len() >= 2 {
                        let n = t.len();
                        t.as_mut_slice().swap(0, n - 1);
                        t.reverse();
                        t.rotate_left(1);
                    }
                    if let Some(x) = t.first_mut() {
                        x.set_val(5);
                    }
                },
            );
            ctx.both(
                "AsMut<[T]> / BorrowMut<[T]> / AsMut<Vec> / IndexMut<range> / for x in &mut vec",
                || {
                    use std::borrow::BorrowMut;
                    if let Some(x) = AsMut::<[P::A]>::as_mut(&mut *s).last_mut() {
                        x.set_val(7);
                    }
                    if let Some(x) = BorrowMut::<[P::A]>::borrow_mut(&mut *s).first_mut() {
                        x.set_val(8);
                    }
                    let whole: &mut BVec<P::A> = AsMut::<BVec<P::A>>::as_mut(&mut *s);
                    let n = whole.len();
                    for x in &mut whole[n / 2..] {
                        let v = (x.val() + 2) % 12;
                        x.set_val(v);
                    }
                    let mut k = 0u32;
                    for x in &mut *s {
                        k += x.val();
                    }
                    let same: &BVec<P::A> = AsRef::<BVec<P::A>>::as_ref(&*s);
                    (k, same.len())
                },
                || {
                    use std::borrow::BorrowMut;
                    if let Some(x) = AsMut::<[P::B]>::as_mut(&mut *t).last_mut() {
                        x.set_val(7);
                    }
                    if let Some(x) = BorrowMut::<[P::B]>::borrow_mut(&mut *t).first_mut() {
                        x.set_val(8);
                    }
                    let whole: &mut Vec<P::B> = AsMut::<Vec<P::B>>::as_mut(&mut *t);
                    let n = whole.len();
                    for x in &mut whole[n / 2..] {
                        let v = (x.val() + 2) % 12;
                        x.set_val(v);
                    }
                    let mut k = 0u32;
                    for x in &mut *t {
                        k += x.val();
                    }
                    let same: &Vec<P::B> = AsRef::<Vec<P::B>>::as_ref(&*t);
                    (k, same.len())
                },
            );
            if c & 0x20 != 0 {
                // take the vector apart into (pointer, length, capacity) and rebuild it: same elements, nothing dropped
                let (sp, sl, sc) = (s.as_mut_ptr(), s.len(), s.capacity());
                let placeholder = BVec::new_in(bump);
                std::mem::forget(std::mem::replace(s, placeholder));
                *s = unsafe { BVec::from_raw_parts_in(sp, sl, sc, bump) };
                if s.len() != sl || s.capacity() != sc || s.as_ptr() != sp as *const P::A {
                    ctx.v("C13", "Vec::from_raw_parts_in does not rebuild the vector it was given the parts of".into());
                }
                if vals(s.as_slice()) != vals(t.as_slice()) {
                    ctx.v("C13", "a vector rebuilt with from_raw_parts_in holds different elements".into());
                }
            }
            ctx.both("sort_by_key (slice method through DerefMut)", || s.sort_by_key(|x| x.val()), || t.sort_by_key(|x| x.val()));
            {
                // the vector's own comparison and hashing impls, against a second arena vector
                use std::hash::{Hash, Hasher};
                let k = (c % 4) as usize;
                let other_vals: Vec<u32> = t.iter().take(t.len().saturating_sub(k)).map(|x| x.val()).chain(std::iter::once(a as u32 % 12)).collect();
                let os: BVec<u32> = {
                    let _g = enter_arena(1);
                    BVec::from_iter_in(other_vals.iter().cloned(), bump)
                };
                let ms: BVec<u32> = {
                    let _g = enter_arena(1);
                    BVec::from_iter_in(s.iter().map(|x| x.val()), bump)
                };
                let mt: Vec<u32> = t.iter().map(|x| x.val()).collect();
                let got = (ms == os, ms != os, ms.cmp(&os), ms.partial_cmp(&os), ms < os, ms >= os, ms == &other_vals[..], ms[..] == other_vals[..]);
                let want = (mt == other_vals, mt != other_vals, mt.cmp(&other_vals), mt.partial_cmp(&other_vals), mt < other_vals, mt >= other_vals, mt == &other_vals[..], mt[..] == other_vals[..]);
                if got != want {
                    ctx.v("C13", format!("Vec's Eq/Ord impls give {:?}, std's give {:?} for {:?} vs {:?}", got, want, mt, other_vals));
                }
                let h = |f: &dyn Fn(&mut std::collections::hash_map::DefaultHasher)| {
                    let mut hs = std::collections::hash_map::DefaultHasher::new();
                    f(&mut hs);
                    hs.finish()
                };
                if h(&|hs| ms.hash(hs)) != h(&|hs| mt.hash(hs)) {
                    ctx.v("C13", "Vec hashes differently from std's Vec with the same contents".into());
                }
                let _g = enter_arena(1);
                drop(os);
                drop(ms);
            }
        }
        _ => {}
    }
    let _ = bump;
    if v.s.capacity() != cap_before && cap_before != 0 {
        ctx.st(V::Reallocs);
    }
    v.check_promise(ctx, VOP_NAMES.get(code as usize).copied().unwrap_or("an operation"));
    // like std's, the vector never gives capacity back on its own: only shrink_to_fit lowers it (C18: room the vector
    // has is usable later without moving)
    // amortised growth: whenever an operation other than an exact reservation has to grow a non-empty buffer, the
    // capacity at least doubles (push, insert, extend*, append, resize, splice, reserve all go through the same path)
    let exact_reservation = code == 17 && (a % 4 == 1 || a % 4 == 3);
    if !exact_reservation && code != 28 && std::mem::size_of::<P::A>() > 0 && cap_before > 0 && v.s.capacity() > cap_before && v.s.capacity() < 2 * cap_before {
        ctx.v("C18", format!("{} grew the capacity from {cap_before} to {} (less than double)", VOP_NAMES.get(code as usize).copied().unwrap_or("an operation"), v.s.capacity()));
    }
    if code != 28 && std::mem::size_of::<P::A>() > 0 && v.s.capacity() < cap_before {
        ctx.v("C18", format!("{} lowered the capacity from {cap_before} to {} without shrink_to_fit", VOP_NAMES.get(code as usize).copied().unwrap_or("an operation"), v.s.capacity()));
    }
    after
}

/// operations that consume the vector
pub fn vec_consume<'b, P: Pair>(ctx: &mut Ctx, bump: &'b Bump, v: VSlot<'b, P::A, P::B>, code: u8, a: u8, b: u8, _c: u8) -> After<'b> {
    let _c = _c;
    let VSlot { s, t, .. } = v;
    let len = t.len();
    match code {
        19 => {
            // into_iter: take from front/back, then drop or forget
            let front = (a % 5) as usize;
            let back = (b % 4) as usize;
            let forget = a & 0xC0 == 0xC0;
            if forget {
                ctx.st(V::IterForgot);
                ctx.st(V::Leaks);
            } else {
                ctx.st(V::IterPartial);
            }
            let nth = (b >> 2) as usize % 7; // 6 = do not call nth
            let how = _c % 6;
            let name = format!("into_iter on len {len}: nth({nth}) unless 6, take {front} front / {back} back, finish #{how}, {}", if forget { "forget" } else { "drop" });
            ctx.both(
                &name,
                move || {
                    let mut it = s.into_iter();
                    let mut got = {
                        let _u = ledger::enter_user();
                        Vec::with_capacity(12)
                    };
                    if nth < 6 {
                        got.push(it.nth(nth).map(|x| x.val()).unwrap_or(999));
                    }
                    for _ in 0..front {
                        if let Some(x) = it.next() {
                            got.push(x.val());
                        }
                    }
                    for _ in 0..back {
                        if let Some(x) = it.next_back() {
                            got.push(x.val());
                        }
                    }
                    got.push(it.len() as u32);
                    got.extend(it.as_slice().iter().map(|x| x.val()));
                    if forget {
                        std::mem::forget(it);
                    } else {
                        // other ways an iterator is usually finished
                        match how {
                            1 => got.push(it.count() as u32),
                            2 => got.push(it.last().map(|x| x.val()).unwrap_or(998)),
                            3 => got.extend(it.skip(2).map(|x| x.val())),
                            4 => got.extend(it.step_by(2).map(|x| x.val())),
                            5 => got.extend(it.rev().take(2).map(|x| x.val())),
                            _ => drop(it),
                        }
                    }
                    got
                },
                move || {
                    let mut it = t.into_iter();
                    let mut got = Vec::with_capacity(12);
                    if nth < 6 {
                        got.push(it.nth(nth).map(|x| x.val()).unwrap_or(999));
                    }
                    for _ in 0..front {
                        if let Some(x) = it.next() {
                            got.push(x.val());
                        }
                    }
                    for _ in 0..back {
                        if let Some(x) = it.next_back() {
                            got.push(x.val());
                        }
                    }
                    got.push(it.len() as u32);
                    got.extend(it.as_slice().iter().map(|x| x.val()));
                    if forget {
                        std::mem::forget(it);
                    } else {
                        match how {
                            1 => got.push(it.count() as u32),
                            2 => got.push(it.last().map(|x| x.val()).unwrap_or(998)),
                            3 => got.extend(it.skip(2).map(|x| x.val())),
                            4 => got.extend(it.step_by(2).map(|x| x.val())),
                            5 => got.extend(it.rev().take(2).map(|x| x.val())),
                            _ => drop(it),
                        }
                    }
                    got
                },
            );
            After::Dead
        }
        20 => {
            ctx.st(V::Conversions);
            ctx.st(V::Leaks);
            let mutable = a & 1 == 1;
            let ls: &'b [P::A] = {
                let _g = enter_arena(1);
                if mutable {
                    let m = s.into_bump_slice_mut();
                    // write through the exclusive slice (same values), as a caller may
                    for i in 0..m.len() {
                        let p: *mut P::A = &mut m[i];
                        unsafe { std::ptr::write(p, std::ptr::read(p)) };
                    }
                    m
                } else {
                    s.into_bump_slice()
                }
            };
            let lt: &'static [P::B] = t.leak();
            if vals(ls) != vals(lt) {
                ctx.v("C13", format!("into_bump_slice returned {:?} but the vector held {:?}", vals(ls), vals(lt)));
            }
            P::leaked(ls, lt)
        }
        24 => {
            ctx.both("drop(vec)", move || drop(s), move || drop(t));
            After::Dead
        }
        _ => {
            let _ = bump;
            After::Replace(P::wrap(VSlot::new(s, t)))
        }
    }
}
