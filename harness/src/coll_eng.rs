//! Collections slot machine and the engines for C13 (Vec vs std) and C15 (drop exactly once).

use crate::arena_eng::k_meta;
use crate::celem::*;
use crate::ledger::{self, enter_arena};
use crate::runner::*;
use crate::sim::panic_msg;
use crate::str_eng;
use crate::types::{check_pat, write_pat};
use crate::vec_eng::*;
use bumpalo::collections::{CollectIn, String as BString, Vec as BVec};
use bumpalo::Bump;
use proptest::prelude::*;
use proptest::strategy::BoxedStrategy;
use serde_json::{json, Value};
use std::alloc::Layout;
use std::panic::{catch_unwind, AssertUnwindSafe};

pub struct Machine<'b> {
    pub bump: &'b Bump,
    pub slots: Vec<Slot<'b>>,
    pub ctx: Ctx,
    pub canary_id: u32,
}

const MAX_SLOTS: usize = 10;

fn slot_kind(s: &Slot) -> &'static str {
    match s {
        Slot::E(_) => "Vec<El>",
        Slot::B(_) => "Vec<u8>",
        Slot::Z(_) => "Vec<Zst>",
        Slot::S { .. } => "String",
        Slot::Bx { .. } => "Box<[El]>",
        Slot::Canary { .. } => "raw block",
        Slot::LeakedE { .. } | Slot::LeakedB { .. } => "leaked slice",
        Slot::Dead => "dead",
    }
}

impl<'b> Machine<'b> {
    pub fn new(bump: &'b Bump) -> Self {
        Machine { bump, slots: Vec::new(), ctx: Ctx::new(), canary_id: 1000 }
    }

    fn put(&mut self, s: Slot<'b>) {
        self.ctx.st(V::Slots);
        if let Some(i) = self.slots.iter().position(|x| matches!(x, Slot::Dead)) {
            self.slots[i] = s;
        } else if self.slots.len() < MAX_SLOTS {
            self.slots.push(s);
        } else {
            // drop the new value on both sides: no room
            self.drop_slot_value(s);
        }
    }

    fn drop_slot_value(&mut self, s: Slot<'b>) {
        let _g = enter_arena(1);
        let _ = catch_unwind(AssertUnwindSafe(move || drop(s)));
    }

    pub fn new_vec(&mut self, kind: u8, a: u8, b: u8, c: u8) {
        let bump = self.bump;
        let k = (a % 9) as usize;
        let how = b % 7;
        macro_rules! mk {
            ($A:ty, $B:ty, $wrap:expr) => {{
                let xs: Vec<u32> = (0..k).map(|j| (c as u32 + j as u32 * 7) % 12).collect();
                let rs = {
                    let _g = enter_arena(1);
                    catch_unwind(AssertUnwindSafe(|| -> BVec<'b, $A> {
                        match how {
                            0 => BVec::new_in(bump),
                            1 => BVec::with_capacity_in(k + (b as usize >> 4), bump),
                            // one in four: the iterator's size_hint is loose or plainly wrong (hint_for)
                            2 if c & 0xC0 == 0xC0 => {
                                let (lo, hi) = crate::vec_eng::hint_for(c >> 2, k);
                                BVec::from_iter_in(crate::vec_eng::Hinted { it: xs.iter().map(|&x| <$A>::make(x)), lo, hi }, bump)
                            }
                            3 if c & 0xC0 == 0xC0 => {
                                let (lo, hi) = crate::vec_eng::hint_for(c >> 2, k);
                                crate::vec_eng::Hinted { it: xs.iter().map(|&x| <$A>::make(x)), lo, hi }.collect_in::<BVec<'b, $A>>(bump)
                            }
                            2 => BVec::from_iter_in(xs.iter().map(|&x| <$A>::make(x)), bump),
                            3 => xs.iter().map(|&x| <$A>::make(x)).collect_in::<BVec<'b, $A>>(bump),
                            // FromIteratorIn for Option<V> / Result<V, E>: all Some / all Ok collects, the first None / Err stops
                            5 => {
                                let stop = (c as usize) % (k + 2);
                                let r: Option<BVec<'b, $A>> = xs.iter().enumerate().map(|(i, &x)| if i == stop { None } else { Some(<$A>::make(x)) }).collect_in(bump);
                                r.unwrap_or_else(|| BVec::new_in(bump))
                            }
                            6 => {
                                let stop = (c as usize) % (k + 2);
                                let r: Result<BVec<'b, $A>, u8> = xs.iter().enumerate().map(|(i, &x)| if i == stop { Err(7u8) } else { Ok(<$A>::make(x)) }).collect_in(bump);
                                r.unwrap_or_else(|_| BVec::new_in(bump))
                            }
                            _ => {
                                if k % 2 == 0 {
                                    bumpalo::vec![in bump; <$A>::make(xs.get(0).cloned().unwrap_or(1)); k]
                                } else {
                                    bumpalo::vec![in bump; <$A>::make(1), <$A>::make(2), <$A>::make(3)]
                                }
                            }
                        }
                    }))
                };
                let t: Vec<$B> = match how {
                    0 => Vec::new(),
                    1 => Vec::with_capacity(k + (b as usize >> 4)),
                    2 | 3 => xs.iter().map(|&x| <$B>::make(x)).collect(),
                    5 => {
                        let stop = (c as usize) % (k + 2);
                        let r: Option<Vec<$B>> = xs.iter().enumerate().map(|(i, &x)| if i == stop { None } else { Some(<$B>::make(x)) }).collect();
                        r.unwrap_or_default()
                    }
                    6 => {
                        let stop = (c as usize) % (k + 2);
                        let r: Result<Vec<$B>, u8> = xs.iter().enumerate().map(|(i, &x)| if i == stop { Err(7u8) } else { Ok(<$B>::make(x)) }).collect();
                        r.unwrap_or_default()
                    }
                    _ => {
                        if k == 0 {
                            // bumpalo::vec![in b; e; 0] does not evaluate `e` (so nothing is created or
                            // dropped); no value ever enters the vector, which is all the properties speak about
                            Vec::new()
                        } else if k % 2 == 0 {
                            vec![<$B>::make(xs.get(0).cloned().unwrap_or(1)); k]
                        } else {
                            vec![<$B>::make(1), <$B>::make(2), <$B>::make(3)]
                        }
                    }
                };
                match rs {
                    Ok(s) => {
                        if how == 1 && s.capacity() < k + (b as usize >> 4) {
                            self.ctx.v("C13", format!("with_capacity_in({}) produced capacity {}", k + (b as usize >> 4), s.capacity()));
                        }
                        let mut vs = VSlot::new(s, t);
                        if how == 1 {
                            vs.promised = k + (b as usize >> 4);
                        }
                        self.put($wrap(vs));
                    }
                    Err(e) => self.ctx.v("C13", format!("constructing a vector (variant {how}, {k} elements) panicked: {}", panic_msg(e))),
                }
            }};
        }
        match kind % 4 {
            0 | 3 => mk!(El<0>, El<1>, Slot::E),
            1 => {
                self.ctx.st(V::Bytes);
                mk!(u8, u8, Slot::B)
            }
            _ => {
                self.ctx.st(V::Zst);
                mk!(Zs<0>, Zs<1>, Slot::Z)
            }
        }
    }

    /// growth of something else in the same arena: raw canary block, string, small vec pushes
    pub fn sibling(&mut self, a: u8, b: u8, _c: u8) {
        let bump = self.bump;
        match a % 3 {
            0 => {
                let len = 1 + (b as usize % 64);
                let id = self.canary_id;
                self.canary_id += 1;
                let p = {
                    let _g = enter_arena(1);
                    bump.alloc_layout(Layout::from_size_align(len, 1 << (a >> 6)).unwrap()).as_ptr() as usize
                };
                unsafe { write_pat(id, p as *mut u8, len) };
                self.put(Slot::Canary { ptr: p, len, id });
            }
            1 => {
                let s = {
                    let _g = enter_arena(1);
                    BString::from_str_in("seed", bump)
                };
                self.put(Slot::S { s, t: String::from("seed") });
            }
            _ => {
                let v = {
                    let _g = enter_arena(1);
                    bump.alloc_slice_fill_copy(1 + (b as usize % 40), 0x5au8).as_ptr() as usize
                };
                let len = 1 + (b as usize % 40);
                let id = self.canary_id;
                self.canary_id += 1;
                unsafe { write_pat(id, v as *mut u8, len) };
                self.put(Slot::Canary { ptr: v, len, id });
            }
        }
    }

    pub fn step(&mut self, op: [u8; 5]) {
        self.ctx.step += 1;
        self.ctx.st(V::Ops);
        let [code, sel, a, b, c] = op;
        let code = code % NVOPS;
        if code == 25 || self.slots.iter().all(|s| matches!(s, Slot::Dead | Slot::Canary { .. } | Slot::LeakedE { .. } | Slot::LeakedB { .. })) {
            self.new_vec(sel, a, b, c);
            self.check_all();
            return;
        }
        if code == 27 {
            self.sibling(a, b, c);
            self.check_all();
            return;
        }
        // pick a live non-canary slot
        let live: Vec<usize> = self.slots.iter().enumerate().filter(|(_, s)| !matches!(s, Slot::Dead | Slot::Canary { .. } | Slot::LeakedE { .. } | Slot::LeakedB { .. })).map(|(i, _)| i).collect();
        let i = live[(sel as usize * live.len()) >> 8];
        if self.ctx.last_grower != usize::MAX && self.ctx.last_grower != i && matches!(code, 0 | 2 | 7 | 8 | 9 | 17) {
            self.ctx.st(V::Interleaved);
        }
        if matches!(code, 0 | 2 | 7 | 8 | 9 | 17) {
            self.ctx.last_grower = i;
        }
        let bump = self.bump;
        let slot = std::mem::replace(&mut self.slots[i], Slot::Dead);
        let consuming = matches!(code, 19 | 20 | 21 | 24);
        let mut newslot: Option<Slot<'b>> = None;
        let back: Slot<'b> = match slot {
            Slot::E(mut v) => {
                if code == 10 {
                    self.append_from::<PE>(&mut v, i, a);
                    Slot::E(v)
                } else if code == 18 && c & 1 == 1 {
                    self.clone_from_other::<PE>(&mut v, i, a);
                    Slot::E(v)
                } else if code == 22 {
                    self.limit_episode::<PE>(&mut v, a, b, c);
                    Slot::E(v)
                } else if code == 21 {
                    self.ctx.st(V::Conversions);
                    let VSlot { s, t, .. } = v;
                    let bs = {
                        let _g = enter_arena(1);
                        s.into_boxed_slice()
                    };
                    Slot::Bx { s: bs, t: t.into_boxed_slice() }
                } else if consuming {
                    match vec_consume::<PE>(&mut self.ctx, bump, v, code, a, b, c) {
                        After::Replace(s) => s,
                        _ => Slot::Dead,
                    }
                } else {
                    match vec_op::<PE>(&mut self.ctx, bump, &mut v, code, a, b, c) {
                        After::New(s) => newslot = Some(s),
                        _ => {}
                    }
                    Slot::E(v)
                }
            }
            Slot::Z(mut v) => {
                self.ctx.st(V::Zst);
                if code == 10 {
                    self.append_from::<PZ>(&mut v, i, a);
                    Slot::Z(v)
                } else if consuming && code != 21 {
                    match vec_consume::<PZ>(&mut self.ctx, bump, v, code, a, b, c) {
                        After::Replace(s) => s,
                        _ => Slot::Dead,
                    }
                } else {
                    match vec_op::<PZ>(&mut self.ctx, bump, &mut v, code, a, b, c) {
                        After::New(s) => newslot = Some(s),
                        _ => {}
                    }
                    Slot::Z(v)
                }
            }
            Slot::B(mut v) => {
                self.ctx.st(V::Bytes);
                if code == 10 {
                    self.append_from::<PB>(&mut v, i, a);
                    Slot::B(v)
                } else if code == 18 && c & 1 == 1 {
                    self.clone_from_other::<PB>(&mut v, i, a);
                    Slot::B(v)
                } else if code == 22 {
                    self.limit_episode::<PB>(&mut v, a, b, c);
                    Slot::B(v)
                } else if code == 26 || code == 9 {
                    self.bytes_op(&mut v, a, b, c);
                    Slot::B(v)
                } else if code == 21 {
                    // Vec<u8> -> String (from_utf8) round trip
                    str_eng::bytes_to_string(&mut self.ctx, v)
                } else if consuming {
                    match vec_consume::<PB>(&mut self.ctx, bump, v, code, a, b, c) {
                        After::Replace(s) => s,
                        _ => Slot::Dead,
                    }
                } else {
                    match vec_op::<PB>(&mut self.ctx, bump, &mut v, code, a, b, c) {
                        After::New(s) => newslot = Some(s),
                        _ => {}
                    }
                    Slot::B(v)
                }
            }
            Slot::S { mut s, mut t } => {
                self.ctx.st(V::Strings);
                self.ctx.tag = "C14";
                match str_eng::string_op(&mut self.ctx, bump, &mut s, &mut t, code, a, b, c) {
                    str_eng::SAfter::Keep => Slot::S { s, t },
                    str_eng::SAfter::New(ns, nt) => {
                        newslot = Some(Slot::S { s: ns, t: nt });
                        Slot::S { s, t }
                    }
                    str_eng::SAfter::Consume => str_eng::string_consume(&mut self.ctx, s, t, a),
                }
            }
            Slot::Bx { s, t } => {
                if code == 24 || code == 19 {
                    self.ctx.both("drop(Box<[T]>)", move || drop(s), move || drop(t));
                    Slot::Dead
                } else {
                    self.ctx.both("Box<[T]> contents", || s.iter().map(|x| x.val()).collect::<Vec<_>>(), || t.iter().map(|x| x.val()).collect::<Vec<_>>());
                    Slot::Bx { s, t }
                }
            }
            other => other,
        };
        self.ctx.tag = "C13";
        self.slots[i] = back;
        if let Some(ns) = newslot {
            self.put(ns);
        }
        self.check_all();
    }

    /// clone_from another vector of the same kind (reuses the destination's buffer where it can)
    fn clone_from_other<P: Pair>(&mut self, v: &mut VSlot<'b, P::A, P::B>, me: usize, a: u8)
    where
        Slot<'b>: SlotAs<'b, P>,
    {
        let cands: Vec<usize> = (0..self.slots.len()).filter(|&j| j != me && <Slot<'b> as SlotAs<'b, P>>::get(&mut self.slots[j]).is_some()).collect();
        if cands.is_empty() {
            return;
        }
        let j = cands[(a as usize * cands.len()) >> 8];
        let other = <Slot<'b> as SlotAs<'b, P>>::get(&mut self.slots[j]).unwrap();
        let VSlot { s, t, .. } = v;
        let VSlot { s: os, t: ot, .. } = other;
        self.ctx.both("clone_from", || s.clone_from(os), || t.clone_from(ot));
        v.promised = 0;
        other.check_promise(&mut self.ctx, "clone_from (source)");
    }

    /// An episode under an exhausted allocation limit: a fallible reservation that cannot be served must
    /// leave the vector (and its neighbours) exactly as they were.
    fn limit_episode<P: Pair>(&mut self, v: &mut VSlot<'b, P::A, P::B>, a: u8, b: u8, c: u8) {
        let bump = self.bump;
        let VSlot { s, t, .. } = v;
        let held = bump.allocated_bytes();
        bump.set_allocation_limit(Some(held));
        // mostly far more than can be had, sometimes just a little (which may fit in place when the amortised amount does not)
        let n = if a & 0x80 != 0 { 1 + (a as usize & 7) } else { 64 + (a as usize) * 64 };
        let r = {
            let _g = enter_arena(1);
            catch_unwind(AssertUnwindSafe(|| if b & 1 == 0 { s.try_reserve(n).is_ok() } else { s.try_reserve_exact(n).is_ok() }))
        };
        match r {
            Err(e) => self.ctx.v("C13", format!("try_reserve({n}) under an exhausted allocation limit panicked: {}", panic_msg(e))),
            Ok(granted) => {
                if granted {
                    t.reserve(n);
                    if s.capacity() < s.len() + n {
                        self.ctx.v("C13", format!("try_reserve({n}) returned Ok but the capacity is {}", s.capacity()));
                    }
                }
                // neighbours allocated right after the (possibly failed) reservation
                for k in 0..(c % 4) as usize {
                    let len = 8 + 8 * k;
                    let p = {
                        let _g = enter_arena(1);
                        bump.try_alloc_layout(Layout::from_size_align(len, 4).unwrap()).ok().map(|p| p.as_ptr() as usize)
                    };
                    if let Some(p) = p {
                        let id = self.canary_id;
                        self.canary_id += 1;
                        unsafe { write_pat(id, p as *mut u8, len) };
                        self.slots.push(Slot::Canary { ptr: p, len, id });
                    }
                }
                // the vector keeps working within the capacity it already had
                let room = s.capacity().saturating_sub(s.len()).min(6);
                for k in 0..room {
                    let x = (c as u32 + k as u32) % 12;
                    self.ctx.both("push within the old capacity after a failed try_reserve", || s.push(P::A::make(x)), || t.push(P::B::make(x)));
                }
            }
        }
        bump.set_allocation_limit(None);
    }

    fn append_from<P: Pair>(&mut self, v: &mut VSlot<'b, P::A, P::B>, me: usize, a: u8)
    where
        Slot<'b>: SlotAs<'b, P>,
    {
        // find another slot of the same kind
        let cands: Vec<usize> = (0..self.slots.len()).filter(|&j| j != me && <Slot<'b> as SlotAs<'b, P>>::get(&mut self.slots[j]).is_some()).collect();
        if cands.is_empty() {
            return;
        }
        let j = cands[(a as usize * cands.len()) >> 8];
        let other = <Slot<'b> as SlotAs<'b, P>>::get(&mut self.slots[j]).unwrap();
        let VSlot { s, t, .. } = v;
        let VSlot { s: os, t: ot, .. } = other;
        self.ctx.both("append", || s.append(os), || t.append(ot));
        // neither operand may lose the room an earlier reserve / with_capacity promised it
        v.check_promise(&mut self.ctx, "append (destination)");
        other.check_promise(&mut self.ctx, "append (emptied source)");
    }

    fn bytes_op(&mut self, v: &mut VSlot<'b, u8, u8>, a: u8, b: u8, c: u8) {
        use std::io::Write;
        let VSlot { s, t, .. } = v;
        let k = (b % 24) as usize;
        let data: Vec<u8> = (0..k).map(|j| c.wrapping_add(j as u8 * 3)).collect();
        match a % 5 {
            0 => {
                self.ctx.both("extend_from_slice_copy", || s.extend_from_slice_copy(&data), || t.extend_from_slice(&data));
            }
            1 => {
                let parts: Vec<&[u8]> = data.chunks(1 + (c as usize % 5)).collect();
                self.ctx.both("extend_from_slices_copy", || s.extend_from_slices_copy(&parts), || parts.iter().for_each(|p| t.extend_from_slice(p)));
            }
            2 => {
                self.ctx.both("io::Write::write", || s.write(&data).ok(), || t.write(&data).ok());
            }
            3 => {
                self.ctx.both("io::Write::write_all + flush", || (s.write_all(&data).is_ok(), s.flush().is_ok()), || (t.write_all(&data).is_ok(), t.flush().is_ok()));
            }
            _ => {
                self.ctx.both("extend(&[u8]) by reference", || s.extend(data.iter()), || t.extend(data.iter()));
            }
        }
    }

    /// after every step: all slots equal to their twins, canaries intact, drop ledgers agree
    pub fn check_all(&mut self) {
        let mut msgs: Vec<(&'static str, String)> = vec![];
        for (i, s) in self.slots.iter().enumerate() {
            match s {
                Slot::E(v) => cmp_vec(&mut msgs, i, v),
                Slot::B(v) => cmp_vec(&mut msgs, i, v),
                Slot::Z(v) => cmp_vec(&mut msgs, i, v),
                Slot::S { s, t } => {
                    if s.as_bytes() != t.as_bytes() {
                        msgs.push(("C14", format!("slot {i} String holds {:?} but std holds {:?}", String::from_utf8_lossy(s.as_bytes()), t)));
                    }
                    if std::str::from_utf8(s.as_bytes()).is_err() {
                        msgs.push(("C14", format!("slot {i} String is not valid UTF-8: {:02x?}", s.as_bytes())));
                    }
                    if s.capacity() < s.len() {
                        msgs.push(("C14", format!("slot {i} String capacity {} < len {}", s.capacity(), s.len())));
                    }
                }
                Slot::Bx { s, t } => {
                    let a: Vec<u32> = s.iter().map(|x| x.val()).collect();
                    let b: Vec<u32> = t.iter().map(|x| x.val()).collect();
                    if a != b {
                        msgs.push(("C13", format!("slot {i} boxed slice holds {:?} but std holds {:?}", a, b)));
                    }
                }
                Slot::LeakedE { s, t } => {
                    let a: Vec<u32> = s.iter().map(|x| x.val()).collect();
                    let b: Vec<u32> = t.iter().map(|x| x.val()).collect();
                    if a != b {
                        msgs.push(("C13", format!("slot {i}: the slice returned by into_bump_slice now reads {:?} but held {:?} when it was returned", a, b)));
                    }
                }
                Slot::LeakedB { s, t, from_string } => {
                    if s != t {
                        if *from_string {
                            msgs.push(("C14", format!("slot {i}: the text returned by into_bump_str now reads {:02x?} but was {:?} when it was returned", s, String::from_utf8_lossy(t))));
                        } else {
                            msgs.push(("C13", format!("slot {i}: the byte slice returned by into_bump_slice now reads {:?} but held {:?} when it was returned", s, t)));
                        }
                    }
                }
                Slot::Canary { ptr, len, id } => {
                    if let Some(j) = unsafe { check_pat(*id, *ptr as *const u8, *len, true) } {
                        msgs.push(("C13", format!("slot {i}: neighbouring raw block of {len} bytes was modified at byte {j}")));
                    }
                }
                Slot::Dead => {}
            }
        }
        // what every collection *claims* (its whole capacity, not just its length) must be its own: the claimed byte
        // ranges of all live vectors, strings, boxed slices, leaked slices and raw neighbours are pairwise disjoint
        {
            let mut ranges: Vec<(usize, usize, usize)> = Vec::with_capacity(self.slots.len());
            for (i, s) in self.slots.iter().enumerate() {
                let r = match s {
                    Slot::E(v) => (v.s.as_ptr() as usize, v.s.capacity().saturating_mul(std::mem::size_of::<El<0>>())),
                    Slot::B(v) => (v.s.as_ptr() as usize, v.s.capacity()),
                    Slot::S { s, .. } => (s.as_ptr() as usize, s.capacity()),
                    Slot::Bx { s, .. } => (s.as_ptr() as usize, s.len() * std::mem::size_of::<El<0>>()),
                    Slot::LeakedE { s, .. } => (s.as_ptr() as usize, s.len() * std::mem::size_of::<El<0>>()),
                    Slot::LeakedB { s, .. } => (s.as_ptr() as usize, s.len()),
                    Slot::Canary { ptr, len, .. } => (*ptr, *len),
                    _ => (0, 0),
                };
                if r.1 > 0 {
                    ranges.push((r.0, r.1, i));
                }
            }
            ranges.sort_unstable();
            for w in ranges.windows(2) {
                if w[0].0.saturating_add(w[0].1) > w[1].0 {
                    let m = format!("slot {} claims [{:#x}, +{}) (its full capacity) which overlaps slot {} at [{:#x}, +{}): a capacity larger than the memory reserved for it", w[0].2, w[0].0, w[0].1, w[1].2, w[1].0, w[1].1);
                    msgs.push(("C13", m.clone()));
                    msgs.push(("C14", m.clone()));
                    msgs.push(("C19", m));
                }
            }
        }
        // drop ledger
        let (ds, ps) = dropped_since(0, self.ctx.drop_pos[0]);
        let (dt, pt) = dropped_since(1, self.ctx.drop_pos[1]);
        self.ctx.drop_pos = [ps, pt];
        self.ctx.stats[V::Drops as usize] += ds.len() as u32;
        if ds != dt {
            msgs.push(("C15", format!("payloads dropped during this step: {:?}, std dropped {:?}", ds, dt)));
            // running different destructors than std's Vec does for the same call is also a difference in behaviour
            msgs.push(("C13", format!("destructors run during this step differ from std's Vec: dropped {:?}, std dropped {:?}", ds, dt)));
        }
        let dd = double_drops(0);
        if !dd.is_empty() {
            msgs.push(("C15", format!("values with serial ids {:?} were dropped more than once", dd)));
        }
        let (zm, zd) = z_counts(0);
        let (tm, td) = z_counts(1);
        if zd > zm {
            msgs.push(("C15", format!("{zd} zero-sized values dropped but only {zm} were ever created")));
        }
        if (zm - zd.min(zm)) != (tm - td.min(tm)) && zd <= zm {
            msgs.push(("C15", format!("zero-sized values alive: {} (created {zm}, dropped {zd}); std: {} (created {tm}, dropped {td})", zm - zd, tm - td.min(tm))));
        }
        // every value reachable through a container must not have been dropped
        for s in self.slots.iter() {
            if let Slot::E(v) = s {
                if let Some(x) = v.s.iter().find(|x| drops_of(0, x.id) > 0) {
                    msgs.push(("C15", format!("value #{} (payload {}) is still reachable through a vector but its destructor already ran", x.id, x.val)));
                }
            }
            if let Slot::Bx { s, .. } = s {
                if let Some(x) = s.iter().find(|x| drops_of(0, x.id) > 0) {
                    msgs.push(("C15", format!("value #{} is still reachable through a boxed slice but its destructor already ran", x.id)));
                }
            }
        }
        if let Some((_, m)) = ledger::check_integrity(false) {
            msgs.push(("C13", m));
        }
        for (p, m) in msgs {
            self.ctx.v(p, m);
        }
    }

    pub fn finish(mut self) -> Ctx {
        self.ctx.step += 1;
        let slots = std::mem::take(&mut self.slots);
        for s in slots {
            match s {
                Slot::Dead | Slot::Canary { .. } | Slot::LeakedE { .. } | Slot::LeakedB { .. } => {}
                other => {
                    self.drop_slot_value(other);
                }
            }
        }
        self.check_all();
        // what was never dropped must agree too (leaks on purpose are mirrored on the std side)
        let us = undropped_payloads(0);
        let ut = undropped_payloads(1);
        if us != ut {
            self.ctx.v("C15", format!("values never dropped at the end: payloads {:?}, std {:?}", us, ut));
        }
        self.ctx
    }
}

pub trait SlotAs<'b, P: Pair> {
    fn get(&mut self) -> Option<&mut VSlot<'b, P::A, P::B>>;
}
impl<'b> SlotAs<'b, PE> for Slot<'b> {
    fn get(&mut self) -> Option<&mut VSlot<'b, El<0>, El<1>>> {
        if let Slot::E(v) = self {
            Some(v)
        } else {
            None
        }
    }
}
impl<'b> SlotAs<'b, PB> for Slot<'b> {
    fn get(&mut self) -> Option<&mut VSlot<'b, u8, u8>> {
        if let Slot::B(v) = self {
            Some(v)
        } else {
            None
        }
    }
}
impl<'b> SlotAs<'b, PZ> for Slot<'b> {
    fn get(&mut self) -> Option<&mut VSlot<'b, Zs<0>, Zs<1>>> {
        if let Slot::Z(v) = self {
            Some(v)
        } else {
            None
        }
    }
}

fn cmp_vec<A: Elem, B: Elem>(msgs: &mut Vec<(&'static str, String)>, i: usize, v: &VSlot<A, B>) {
    let a: Vec<u32> = v.s.iter().map(|x| x.val()).collect();
    let b: Vec<u32> = v.t.iter().map(|x| x.val()).collect();
    if a != b {
        msgs.push(("C13", format!("slot {i} holds {:?} (len {}) but std holds {:?} (len {})", a, v.s.len(), b, v.t.len())));
    }
    if v.s.capacity() < v.s.len() {
        msgs.push(("C13", format!("slot {i}: capacity {} < len {}", v.s.capacity(), v.s.len())));
    }
}

/// Run one collections program. Returns the context with violations and statistics.
pub fn run_coll_case(bytes: &[u8]) -> Ctx {
    let _ = k_meta();
    ledger::begin_case(fnv(bytes));
    reset_sides();
    z_reset();
    let bump: &'static Bump = {
        let _g = enter_arena(1);
        Box::leak(Box::new(Bump::new()))
    };
    let mut m = Machine::new(bump);
    for ch in bytes.chunks(5) {
        let g = |i: usize| ch.get(i).cloned().unwrap_or(0);
        m.step([g(0), g(1), g(2), g(3), g(4)]);
        if !m.ctx.viol.is_empty() {
            break;
        }
    }
    let ctx = m.finish();
    unsafe {
        let _g = enter_arena(1);
        drop(Box::from_raw(bump as *const Bump as *mut Bump));
    }
    ledger::end_case();
    ctx
}

pub fn describe_coll(bytes: &[u8]) -> Value {
    json!({
        "ops": bytes.chunks(5).map(|ch| {
            let g = |i: usize| ch.get(i).cloned().unwrap_or(0);
            format!("{}(slot_sel={}, a={}, b={}, c={})", VOP_NAMES[(g(0) % NVOPS) as usize], g(1), g(2), g(3), g(4))
        }).collect::<Vec<_>>(),
        "note": "slot machine over bumpalo::collections::{Vec<El>, Vec<u8>, Vec<Zst>, String}, boxed slices and raw neighbour blocks in one arena; each op also runs on a std twin; on a String slot the op code is interpreted by the String table (see str_eng.rs)",
    })
}

pub fn coll_strategy(weights: &[u32; NVOPS as usize], max_ops: usize) -> BoxedStrategy<Vec<u8>> {
    let codes: Vec<u8> = weights.iter().enumerate().flat_map(|(i, w)| std::iter::repeat(i as u8).take(*w as usize)).collect();
    let op = (proptest::sample::select(codes), any::<u8>(), any::<u8>(), any::<u8>(), any::<u8>()).prop_map(|(c, s, a, b, d)| [c, s, a, b, d]);
    proptest::collection::vec(op, 1..=max_ops).prop_map(|ops| ops.into_iter().flatten().collect()).boxed()
}

pub struct CollEngine {
    pub prop: &'static str,
}

impl Engine for CollEngine {
    fn prop(&self) -> &'static str {
        self.prop
    }
    fn strategy(&self, _tier: Tier) -> BoxedStrategy<Vec<u8>> {
        //  push pop ins rem swr trn clr rsz ext exs app spl drn spc ret drf ddp rsv cln iit ibs ibx fri rd  drp new byt sib shr ddb
        let w: [u32; 30] = match self.prop {
            "C15" => [10, 4, 5, 5, 4, 4, 2, 4, 5, 4, 3, 4, 8, 6, 4, 7, 3, 2, 5, 7, 4, 4, 1, 1, 4, 8, 2, 3, 1, 3],
            "C14" => [10, 4, 5, 5, 4, 4, 2, 4, 5, 4, 3, 4, 8, 6, 4, 7, 3, 2, 6, 7, 4, 4, 2, 1, 4, 2, 2, 9, 1, 3],
            _ => [10, 4, 6, 6, 4, 4, 2, 4, 5, 4, 3, 4, 7, 6, 4, 5, 3, 4, 4, 4, 2, 2, 3, 4, 2, 7, 4, 5, 2, 3],
        };
        if self.prop == "C15" {
            // ownership of boxed values is part of C15 as well: one case in five is a Box scenario (box_eng.rs)
            let coll = coll_strategy(&w, 40).prop_map(|mut v| {
                v.insert(0, 0);
                v
            });
            let boxes = crate::box_eng::C17Engine.strategy(_tier).prop_map(|mut v| {
                v.insert(0, 1);
                v
            });
            return prop_oneof![4 => coll, 1 => boxes].boxed();
        }
        coll_strategy(&w, 40)
    }
    fn run(&self, bytes: &[u8]) -> CaseOut {
        let bytes = if self.prop == "C15" {
            if bytes.first().cloned().unwrap_or(0) == 1 {
                let (viol, nt, _) = crate::box_eng::run_box_case(&bytes[1..]);
                let mut stats = vec![0u32; VST_NAMES.len()];
                stats[V::Ops as usize] = 1;
                stats[V::Conversions as usize] = 1;
                return CaseOut { viol, nontrivial: nt, hash: fnv(bytes), stats, ..Default::default() };
            }
            bytes.get(1..).unwrap_or(&[])
        } else {
            bytes
        };
        let ctx = run_coll_case(bytes);
        let mut out = CaseOut { hash: fnv(bytes), stats: ctx.stats.to_vec(), ..Default::default() };
        let g = |x: V| ctx.stats[x as usize];
        out.nontrivial = match self.prop {
            "C13" => g(V::Interleaved) > 0 && g(V::Boundary) > 0,
            "C15" => g(V::IterPartial) + g(V::IterForgot) > 0 || g(V::Conversions) >= 2,
            _ => g(V::Strings) > 0 && g(V::Boundary) > 0,
        };
        for (p, m) in ctx.viol {
            if p == self.prop {
                out.viol.push(m);
            } else {
                out.other.push(p.to_string());
            }
        }
        out
    }
    fn describe(&self, bytes: &[u8]) -> Value {
        if self.prop == "C15" {
            if bytes.first().cloned().unwrap_or(0) == 1 {
                return crate::box_eng::C17Engine.describe(&bytes[1..]);
            }
            return describe_coll(bytes.get(1..).unwrap_or(&[]));
        }
        describe_coll(bytes)
    }
    fn sweep(&self, tier: Tier, idx: u32, nworkers: u32) -> Option<SweepOut> {
        if self.prop == "C14" {
            Some(str_eng::decoder_sweep(tier, idx, nworkers))
        } else {
            None
        }
    }
    fn replay_sweep(&self, item: &Value) -> Vec<String> {
        str_eng::replay_decoder_item(item)
    }
    fn fuzz(&self) -> Option<FuzzSpec> {
        Some(FuzzSpec { target: "fz_coll", max_len: 5 * 60, target_prefix: vec![], engine_prefix: if self.prop == "C15" { vec![0] } else { vec![] } })
    }
    fn stat_names(&self) -> Vec<&'static str> {
        VST_NAMES.to_vec()
    }
    fn cases(&self, tier: Tier) -> u32 {
        match tier {
            Tier::Quick => 10000,
            Tier::Thorough => 120000,
        }
    }
    fn rule(&self) -> String {
        let nt = match self.prop {
            "C13" => "at least two growing collections interleaved in the arena and at least one boundary/out-of-range index or range argument",
            "C15" => "an iterator/Drain/Splice/DrainFilter dropped part-way or forgotten, or at least two ownership-transferring conversions",
            _ => "a String slot was operated on with a boundary/out-of-range/non-boundary index",
        };
        format!("cases are proptest-generated programs (5 bytes per operation, <= 40 operations) for a slot machine of arena collections, each mirrored by a std twin; every operation runs on both under catch_unwind and results, panics, contents and the two drop ledgers are compared after every step; non-trivial = {nt}; distinct = distinct case bytes")
    }
    fn assumptions(&self) -> Vec<String> {
        vec![
            "methods without a std twin are modelled by their documented meaning (drain_filter = remove all matching when dropped; extend_from_slice(s)_copy = extend_from_slice)".into(),
            "panic messages, exact capacities and drop order are not compared".into(),
        ]
    }
}

#[allow(dead_code)]
fn _t(_: &dyn Fn(&BString, &BVec<u8>)) {}
