//! String part of the collections interpreter and the decoder sweeps (C14).

use crate::ledger::{self, enter_arena};
use crate::runner::*;
use crate::vec_eng::*;
use bumpalo::collections::{String as BString, Vec as BVec};
use bumpalo::Bump;
use serde_json::{json, Value};
use std::collections::BTreeMap;
use std::fmt::Write as _;
use std::panic::{catch_unwind, AssertUnwindSafe};

pub const CHARS: [char; 20] = [
    'a', 'Z', '0', ' ', 'é', 'ß', 'Ω', '€', '中', '\u{FFFD}', '😀', '𝄞', '\0', '\u{7f}', '\u{80}', '\u{7ff}', '\u{800}', '\u{ffff}', '\u{10000}', '\u{10ffff}',
];

pub enum SAfter<'b> {
    Keep,
    New(BString<'b>, String),
    Consume,
}

fn text(seed: u8, n: usize) -> String {
    (0..n).map(|j| CHARS[(seed as usize + j * 7) % CHARS.len()]).collect()
}

pub fn string_op<'b>(ctx: &mut Ctx, bump: &'b Bump, s: &mut BString<'b>, t: &mut String, code: u8, a: u8, b: u8, c: u8) -> SAfter<'b> {
    let cap_before = s.capacity();
    let r = string_op_inner(ctx, bump, s, t, code, a, b, c);
    // Room obtained from with_capacity_in / reserve stays with the string until it is shrunk explicitly or assigned
    // wholesale: no other operation may lower the capacity (C18: reserved capacity is usable later without moving).
    let exact_reservation = code == 17 && a & 1 == 1;
    if matches!(r, SAfter::Keep) && !exact_reservation && code != 28 && code != 18 && cap_before > 0 && s.capacity() > cap_before && s.capacity() < 2 * cap_before {
        ctx.v("C18", format!("String operation #{code} grew the capacity from {cap_before} to {} (less than double)", s.capacity()));
    }
    if matches!(r, SAfter::Keep) && code != 28 && code != 18 && s.capacity() < cap_before {
        ctx.v("C18", format!("String operation #{code} lowered the capacity from {cap_before} to {} without shrink_to_fit", s.capacity()));
    }
    r
}

fn string_op_inner<'b>(ctx: &mut Ctx, bump: &'b Bump, s: &mut BString<'b>, t: &mut String, code: u8, a: u8, b: u8, c: u8) -> SAfter<'b> {
    let len = t.len();
    match code {
        0 | 25 => {
            let ch = CHARS[c as usize % CHARS.len()];
            ctx.both("String::push", || s.push(ch), || t.push(ch));
        }
        1 => {
            ctx.both("String::pop", || s.pop(), || t.pop());
        }
        2 => {
            let i = idx_arg(ctx, a, b, len);
            let ch = CHARS[c as usize % CHARS.len()];
            ctx.both(&format!("String::insert({i}, {:?}) on len {len}", ch), || s.insert(i, ch), || t.insert(i, ch));
        }
        3 => {
            let i = idx_arg(ctx, a, b, len);
            ctx.both(&format!("String::remove({i}) on len {len}"), || s.remove(i), || t.remove(i));
        }
        4 => {
            let i = idx_arg(ctx, a, b, len);
            let x = text(c, (c % 5) as usize);
            ctx.both(&format!("String::insert_str({i}, {:?}) on len {len}", x), || s.insert_str(i, &x), || t.insert_str(i, &x));
        }
        5 => {
            let n = idx_arg(ctx, a, b, len);
            ctx.both(&format!("String::truncate({n}) on len {len}"), || s.truncate(n), || t.truncate(n));
        }
        6 => {
            ctx.both("String::clear", || s.clear(), || t.clear());
        }
        7 | 9 | 26 => {
            let x = text(c, (a % 9) as usize);
            ctx.both("String::push_str", || s.push_str(&x), || t.push_str(&x));
        }
        8 => {
            let x = text(c, (a % 7) as usize);
            match b % 8 {
                0 => {
                    ctx.both("String::extend(chars)", || s.extend(x.chars()), || t.extend(x.chars()));
                }
                // iterators whose size_hint says little or nothing (lower bound 0, no upper bound): the text must not depend on the hint
                3 => {
                    ctx.both("String::extend(chars().filter(..))", || s.extend(x.chars().filter(|ch| *ch != ' ')), || t.extend(x.chars().filter(|ch| *ch != ' ')));
                }
                4 => {
                    let cs: Vec<char> = x.chars().collect();
                    ctx.both("String::extend(&char, skip_while)", || s.extend(cs.iter().skip_while(|ch| ch.is_ascii())), || t.extend(cs.iter().skip_while(|ch| ch.is_ascii())));
                }
                5 => {
                    let mk = || {
                        let mut it = x.chars();
                        std::iter::from_fn(move || it.next())
                    };
                    ctx.both("String::extend(iter::from_fn(..))", || s.extend(mk()), || t.extend(mk()));
                }
                6 => {
                    let parts: Vec<&str> = x.split(' ').collect();
                    ctx.both("String::extend(&str, filtered) / flat_map of chars", || { s.extend(parts.iter().cloned().filter(|p| !p.is_empty())); s.extend(parts.iter().flat_map(|p| p.chars().take(1))); }, || { t.extend(parts.iter().cloned().filter(|p| !p.is_empty())); t.extend(parts.iter().flat_map(|p| p.chars().take(1))); });
                }
                1 | 7 => {
                    let parts: Vec<&str> = x.split_inclusive(' ').collect();
                    ctx.both("String::extend(&str)", || s.extend(parts.iter().cloned()), || t.extend(parts.iter().cloned()));
                }
                _ => {
                    let cs: Vec<char> = x.chars().collect();
                    ctx.both("String::extend(&char)", || s.extend(cs.iter()), || t.extend(cs.iter()));
                }
            }
        }
        11 => {
            let at = idx_arg(ctx, a, b, len);
            let rs = {
                let _g = enter_arena(1);
                catch_unwind(AssertUnwindSafe(|| s.split_off(at)))
            };
            let rt = catch_unwind(AssertUnwindSafe(|| t.split_off(at)));
            match (rs, rt) {
                (Ok(ns), Ok(nt)) => return SAfter::New(ns, nt),
                (Err(_), Err(_)) => ctx.st(V::BothPanicked),
                (Ok(_), Err(_)) => ctx.v("C14", format!("String::split_off({at}) on len {len} returned where std panics")),
                (Err(_), Ok(_)) => ctx.v("C14", format!("String::split_off({at}) on len {len} panicked where std returns")),
            }
        }
        12 => {
            let range = range_arg(ctx, c, a, b, len);
            let take = (a >> 5) as usize;
            let back = (b >> 6) as usize;
            ctx.both(
                &format!("String::drain({:?}) on len {len}, take {take} front / {back} back", range),
                || {
                    let mut d = s.drain(range);
                    let mut got = {
                        let _u = ledger::enter_user();
                        String::with_capacity(64)
                    };
                    for _ in 0..take {
                        if let Some(ch) = d.next() {
                            got.push(ch);
                        }
                    }
                    for _ in 0..back {
                        if let Some(ch) = d.next_back() {
                            got.push(ch);
                        }
                    }
                    // the size hint must bracket what is really left; formatting the Drain must not disturb it
                    let (lo, hi) = d.size_hint();
                    let dbg_len = {
                        let _u = ledger::enter_user();
                        format!("{:?}", d).len()
                    };
                    let mut rest = 0usize;
                    for ch in d {
                        rest += 1;
                        got.push(ch);
                    }
                    if lo > rest || hi.map_or(false, |h| h < rest) || dbg_len == 0 {
                        got.push_str("<<size_hint of string::Drain does not bracket the remaining chars>>");
                    }
                    got
                },
                || {
                    let mut d = t.drain(range);
                    let mut got = String::with_capacity(64);
                    for _ in 0..take {
                        if let Some(ch) = d.next() {
                            got.push(ch);
                        }
                    }
                    for _ in 0..back {
                        if let Some(ch) = d.next_back() {
                            got.push(ch);
                        }
                    }
                    for ch in d {
                        got.push(ch);
                    }
                    got
                },
            );
        }
        13 => {
            let range = range_arg(ctx, c, a, b, len);
            let x = text(c, (c % 6) as usize);
            ctx.both(&format!("String::replace_range({:?}, {:?}) on len {len}", range, x), || s.replace_range(range, &x), || t.replace_range(range, &x));
        }
        14 => {
            let m = 2 + (a % 3) as u32;
            let r = b as u32 % m;
            ctx.both("String::retain", || s.retain(|ch| ch as u32 % m != r), || t.retain(|ch| ch as u32 % m != r));
        }
        15 => {
            // retain whose predicate panics at its k-th call: both strings must be left holding the same text
            let m = 2 + (a % 3) as u32;
            let r = b as u32 % m;
            let k = (c % 6) as usize;
            let mut n1 = 0usize;
            let mut n2 = 0usize;
            ctx.both(
                &format!("String::retain with a predicate that panics at call {k}"),
                || {
                    s.retain(|ch| {
                        let _u = ledger::enter_user();
                        n1 += 1;
                        if n1 - 1 == k {
                            panic!("predicate panic");
                        }
                        ch as u32 % m != r
                    })
                },
                || {
                    t.retain(|ch| {
                        n2 += 1;
                        if n2 - 1 == k {
                            panic!("predicate panic");
                        }
                        ch as u32 % m != r
                    })
                },
            );
        }
        17 => {
            let n = if b >= 252 { usize::MAX - (b as usize - 252) } else { (b % 80) as usize };
            if a & 1 == 0 {
                ctx.both(&format!("String::reserve({n})"), || s.reserve(n), || t.reserve(n));
            } else {
                ctx.both(&format!("String::reserve_exact({n})"), || s.reserve_exact(n), || t.reserve_exact(n));
            }
            if s.len() == len && n < 100 && s.capacity() < len + n {
                ctx.v("C14", format!("after String::reserve({n}) on len {len} the capacity is only {}", s.capacity()));
            }
        }
        28 => {
            ctx.both("String::shrink_to_fit", || s.shrink_to_fit(), || t.shrink_to_fit());
        }
        16 => {
            // operators and owned-string extension
            let x = text(c, (a % 5) as usize);
            match b % 5 {
                0 => {
                    ctx.both("String += &str", || *s += &x, || *t += &x);
                }
                1 => {
                    let ns = {
                        let _g = enter_arena(1);
                        let tmp = std::mem::replace(s, BString::new_in(bump));
                        tmp + &x
                    };
                    *s = ns;
                    let nt = std::mem::take(t) + &x;
                    *t = nt;
                }
                2 => {
                    let parts: Vec<String> = x.chars().map(|c| c.to_string()).collect();
                    let parts2 = parts.clone();
                    ctx.both("String::extend(std Strings)", || s.extend(parts), || t.extend(parts2));
                }
                3 => {
                    let cows: Vec<std::borrow::Cow<str>> = x.split_inclusive('a').map(std::borrow::Cow::Borrowed).collect();
                    let cows2 = cows.clone();
                    ctx.both("String::extend(Cow<str>)", || s.extend(cows), || t.extend(cows2));
                }
                _ => {
                    ctx.both("as_mut_str().make_ascii_uppercase / IndexMut", || { s.as_mut_str().make_ascii_uppercase(); s[..].make_ascii_lowercase(); }, || { t.as_mut_str().make_ascii_uppercase(); t[..].make_ascii_lowercase(); });
                }
            }
        }
        10 | 27 => {
            // builders from iterators
            let x = text(c, (a % 9) as usize);
            let ns = {
                let _g = enter_arena(1);
                use bumpalo::collections::CollectIn;
                match b & 3 {
                    0 => BString::from_iter_in(x.chars(), bump),
                    1 => x.chars().rev().collect_in::<BString>(bump),
                    2 => BString::from_iter_in(x.chars().filter(|ch| !ch.is_ascii_digit()), bump),
                    _ => x.chars().skip_while(|ch| *ch == ' ').step_by(2).collect_in::<BString>(bump),
                }
            };
            let nt: String = match b & 3 {
                0 => x.chars().collect(),
                1 => x.chars().rev().collect(),
                2 => x.chars().filter(|ch| !ch.is_ascii_digit()).collect(),
                _ => x.chars().skip_while(|ch| *ch == ' ').step_by(2).collect(),
            };
            return SAfter::New(ns, nt);
        }
        18 if c & 1 == 1 => {
            // clone_from a source of another length: the destination's old text (and where its characters
            // happened to start) must not matter
            let src_text = text(a, (b % 9) as usize);
            let src = {
                let _g = enter_arena(1);
                BString::from_str_in(&src_text, bump)
            };
            let src_t = src_text.clone();
            ctx.both(&format!("String::clone_from({:?}) onto len {len}", src_text), || s.clone_from(&src), || t.clone_from(&src_t));
        }
        18 => {
            let ns = {
                let _g = enter_arena(1);
                s.clone()
            };
            return SAfter::New(ns, t.clone());
        }
        22 | 29 => {
            // format! / fmt::Write
            let n = c as i32 - 100;
            let x = text(a, (b % 4) as usize);
            if code == 22 {
                // the same invocation through bumpalo's macro and std's; format strings must be literals, so the
                // shapes are a fixed family (explicit, positional, named, inline-captured arguments, escaped braces,
                // no arguments at all) and the values are generated
                macro_rules! fmt_pair {
                    ($($t:tt)*) => {{
                        let ns = {
                            let _g = enter_arena(1);
                            bumpalo::format!(in bump, $($t)*)
                        };
                        let nt = format!($($t)*);
                        return SAfter::New(ns, nt);
                    }};
                }
                let width = (b % 7) as usize;
                match b % 10 {
                    0 => fmt_pair!("{}-{:>5}-{:?}", n, x, x),
                    1 => fmt_pair!("{n}-{x}",),
                    2 => fmt_pair!("set {{a, b}} ∪ {{ç}}",),
                    3 => fmt_pair!("plain text é, no arguments",),
                    4 => fmt_pair!("{0}{0}{1:?}", x, n),
                    5 => fmt_pair!("{n:>width$}|{x:<8}|{:+}", n),
                    6 => fmt_pair!("{{{}}}", n),
                    7 => fmt_pair!("",),
                    8 => fmt_pair!("{x:?}{{{n:>4}}}",),
                    _ => fmt_pair!("{}", x,),
                }
            }
            ctx.both("write!(String)", || write!(s, "{}|{}", n, x).is_ok(), || write!(t, "{}|{}", n, x).is_ok());
        }
        23 => {
            let i = idx_arg(ctx, a, b, len);
            ctx.both(&format!("is_char_boundary({i})"), || s.is_char_boundary(i), || t.is_char_boundary(i));
            ctx.both("as_str/len/is_empty/chars().rev()", || (s.as_str().to_string(), s.len(), s.is_empty(), s.chars().rev().count()), || (t.as_str().to_string(), t.len(), t.is_empty(), t.chars().rev().count()));
            let range = range_arg(ctx, c, a, b, len);
            use std::ops::Bound::*;
            match range {
                (Included(x), Excluded(y)) => {
                    ctx.both(&format!("str index [{x}..{y}]"), || s[x..y].to_string(), || t[x..y].to_string());
                }
                (Included(x), Included(y)) => {
                    ctx.both(&format!("str index [{x}..={y}]"), || s[x..=y].to_string(), || t[x..=y].to_string());
                }
                (Included(x), Unbounded) => {
                    ctx.both(&format!("str index [{x}..]"), || s[x..].to_string(), || t[x..].to_string());
                }
                (Unbounded, Excluded(y)) => {
                    ctx.both(&format!("str index [..{y}]"), || s[..y].to_string(), || t[..y].to_string());
                }
                (Unbounded, Included(y)) => {
                    ctx.both(&format!("str index [..={y}]"), || s[..=y].to_string(), || t[..=y].to_string());
                }
                _ => {
                    ctx.both("str index [..]", || s[..].to_string(), || t[..].to_string());
                }
            }
            let other = text(c, 2);
            ctx.both("comparisons", || (s.as_str() == other, *s == *other.as_str(), s.as_str() < other.as_str()), || (t.as_str() == other, *t == *other.as_str(), t.as_str() < other.as_str()));
            {
                use std::borrow::Cow;
                use std::hash::{Hash, Hasher};
                let owned = other.clone();
                let cow: Cow<str> = Cow::Borrowed(&other);
                let eqs = (*s == *other.as_str(), *s == &other[..], owned == *s, cow == *s, *s == *s, *other.as_str() == *s, &other[..] == *s, *s == owned, *s == cow, *s != *other.as_str(), &other[..] != *s);
                let eqt = (*t == *other.as_str(), *t == &other[..], owned == *t, cow == *t, true, *other.as_str() == *t, &other[..] == *t, *t == owned, *t == cow, *t != *other.as_str(), &other[..] != *t);
                if !std::ptr::eq(s.bump(), bump) {
                    ctx.v("C14", "String::bump() does not return the arena the string was created in".into());
                }
                if eqs != eqt {
                    ctx.v("C14", format!("PartialEq impls (str, &str, String, Cow) give {:?}, std gives {:?}", eqs, eqt));
                }
                let h = |f: &dyn Fn(&mut std::collections::hash_map::DefaultHasher)| {
                    let mut hs = std::collections::hash_map::DefaultHasher::new();
                    f(&mut hs);
                    hs.finish()
                };
                if h(&|hs| s.hash(hs)) != h(&|hs| t.hash(hs)) {
                    ctx.v("C14", "String hashes differently from std's String with the same text".into());
                }
                if format!("{}|{:?}|{:>8}|{:.2}", s, s, s, s) != format!("{}|{:?}|{:>8}|{:.2}", t, t, t, t) {
                    ctx.v("C14", "Display/Debug formatting differs from std's".into());
                }
                let rs: &str = s.as_ref();
                let rb: &[u8] = s.as_ref();
                let bs: &str = std::borrow::Borrow::borrow(&*s);
                if rs != t.as_str() || rb != t.as_bytes() || bs != t.as_str() {
                    ctx.v("C14", "AsRef<str> / AsRef<[u8]> / Borrow<str> give different text".into());
                }
            }
            // exclusive views: IndexMut over every range form, DerefMut, BorrowMut<str>; ASCII case changes keep UTF-8
            let (lo, hi) = {
                let mut lo = (a as usize * (len + 1)) >> 8;
                while !t.is_char_boundary(lo) {
                    lo -= 1;
                }
                let mut hi = lo + (((b as usize) * (len - lo + 1)) >> 8);
                while !t.is_char_boundary(hi) {
                    hi -= 1;
                }
                (lo, hi.max(lo))
            };
            ctx.both(
                &format!("IndexMut ranges {lo}..{hi} / BorrowMut<str> / DerefMut"),
                || {
                    use std::borrow::BorrowMut;
                    s[lo..hi].make_ascii_uppercase();
                    s[..lo].make_ascii_lowercase();
                    s[hi..].make_ascii_uppercase();
                    if hi > lo {
                        s[lo..=hi - 1].make_ascii_lowercase();
                        s[..=hi - 1].make_ascii_uppercase();
                    }
                    s[..].make_ascii_lowercase();
                    BorrowMut::<str>::borrow_mut(&mut *s).make_ascii_uppercase();
                    s.as_mut_str().make_ascii_lowercase();
                    if c & 2 != 0 {
                        // the unsafe byte view, used within its contract (ASCII appended)
                        unsafe { s.as_mut_vec().push(b'!') };
                    }
                },
                || {
                    use std::borrow::BorrowMut;
                    t[lo..hi].make_ascii_uppercase();
                    t[..lo].make_ascii_lowercase();
                    t[hi..].make_ascii_uppercase();
                    if hi > lo {
                        t[lo..=hi - 1].make_ascii_lowercase();
                        t[..=hi - 1].make_ascii_uppercase();
                    }
                    t[..].make_ascii_lowercase();
                    BorrowMut::<str>::borrow_mut(&mut *t).make_ascii_uppercase();
                    t.as_mut_str().make_ascii_lowercase();
                    if c & 2 != 0 {
                        unsafe { t.as_mut_vec().push(b'!') };
                    }
                },
            );
            if c & 4 != 0 {
                // take the string apart and rebuild it from its raw parts / from its bytes without re-validation
                let (sp, sl, sc) = (s.as_mut_ptr(), s.len(), s.capacity());
                let old = std::mem::replace(s, BString::new_in(bump));
                if c & 8 != 0 {
                    std::mem::forget(old);
                    *s = unsafe { BString::from_raw_parts_in(sp, sl, sc, bump) };
                } else {
                    *s = unsafe { BString::from_utf8_unchecked(old.into_bytes()) };
                }
                if s.len() != sl || s.capacity() != sc || s.as_ptr() != sp as *const u8 || s.as_str() != t.as_str() {
                    ctx.v("C14", "a String rebuilt from its raw parts / unchecked bytes differs from the original".into());
                }
            }
        }
        19 | 20 | 21 | 24 => return SAfter::Consume,
        _ => {}
    }
    SAfter::Keep
}

pub fn string_consume<'b>(ctx: &mut Ctx, s: BString<'b>, t: String, a: u8) -> Slot<'b> {
    match a % 3 {
        0 => {
            ctx.st(V::Conversions);
            // the frozen text stays in the machine as a leaked slice: it must read the same after every later step
            let ls: &'b str = {
                let _g = enter_arena(1);
                s.into_bump_str()
            };
            let lt: &'static str = t.leak();
            if ls.as_bytes() != lt.as_bytes() {
                ctx.v("C14", format!("into_bump_str returned {:02x?}, the String held {:?}", ls.as_bytes(), lt));
            }
            Slot::LeakedB { s: ls.as_bytes(), t: lt.as_bytes(), from_string: true }
        }
        1 => {
            ctx.st(V::Conversions);
            let v = {
                let _g = enter_arena(1);
                s.into_bytes()
            };
            Slot::B(VSlot::new(v, t.into_bytes()))
        }
        _ => {
            ctx.both("drop(String)", move || drop(s), move || drop(t));
            Slot::Dead
        }
    }
}

/// Vec<u8> -> String::from_utf8, compared with std
pub fn bytes_to_string<'b>(ctx: &mut Ctx, v: VSlot<'b, u8, u8>) -> Slot<'b> {
    ctx.st(V::Conversions);
    let VSlot { s, t, .. } = v;
    let rs = {
        let _g = enter_arena(1);
        BString::from_utf8(s)
    };
    let rt = String::from_utf8(t);
    match (rs, rt) {
        (Ok(s), Ok(t)) => Slot::S { s, t },
        (Err(es), Err(et)) => {
            let (a, b) = (es.utf8_error(), et.utf8_error());
            if es.to_string() != a.to_string() || es.as_bytes() != et.as_bytes() {
                ctx.v("C14", format!("FromUtf8Error displays {:?} (its Utf8Error: {:?}) / holds bytes {:02x?} (std: {:02x?})", es.to_string(), a.to_string(), es.as_bytes(), et.as_bytes()));
            }
            if (a.valid_up_to(), a.error_len()) != (b.valid_up_to(), b.error_len()) {
                ctx.v("C14", format!("from_utf8 error position ({}, {:?}) differs from std ({}, {:?})", a.valid_up_to(), a.error_len(), b.valid_up_to(), b.error_len()));
            }
            Slot::B(VSlot::new(es.into_bytes(), et.into_bytes()))
        }
        (Ok(s), Err(et)) => {
            ctx.v("C14", format!("from_utf8 accepted {:02x?} which std rejects", s.as_bytes()));
            Slot::B(VSlot::new(s.into_bytes(), et.into_bytes()))
        }
        (Err(es), Ok(t)) => {
            ctx.v("C14", format!("from_utf8 rejected {:02x?} which std accepts", t.as_bytes()));
            Slot::B(VSlot::new(es.into_bytes(), t.into_bytes()))
        }
    }
}

// ---------------------------------------------------------------------------------------------
// decoder sweeps

pub const BYTE_CLASSES: [u8; 26] = [
    0x00, 0x41, 0x7F, 0x80, 0x8F, 0x90, 0x9F, 0xA0, 0xBF, 0xC0, 0xC1, 0xC2, 0xDF, 0xE0, 0xE1, 0xEC, 0xED, 0xEE, 0xEF, 0xF0, 0xF1, 0xF3, 0xF4, 0xF5, 0xF8, 0xFF,
];
pub const U16_CLASSES: [u16; 13] = [0, 0x41, 0x7F, 0x80, 0x7FF, 0x800, 0xD7FF, 0xD800, 0xDBFF, 0xDC00, 0xDFFF, 0xE000, 0xFFFF];

/// compare the three decoders on one byte string; returns a message on disagreement
/// the decoders never panic in std; a panic inside bumpalo's is a disagreement like any other (and must not kill the sweep)
pub fn check_bytes(bump: &Bump, bytes: &[u8]) -> Option<String> {
    match std::panic::catch_unwind(std::panic::AssertUnwindSafe(|| check_bytes_inner(bump, bytes))) {
        Ok(r) => r,
        Err(e) => Some(format!("decoding {:02x?} panicked ({}) where std's from_utf8 / from_utf8_lossy return normally", bytes, crate::sim::panic_msg(e))),
    }
}

fn check_bytes_inner(bump: &Bump, bytes: &[u8]) -> Option<String> {
    let mut v = BVec::with_capacity_in(bytes.len(), bump);
    v.extend_from_slice_copy(bytes);
    let rs = BString::from_utf8(v);
    let rt = std::str::from_utf8(bytes);
    match (&rs, &rt) {
        (Ok(s), Ok(t)) => {
            if s.as_bytes() != t.as_bytes() {
                return Some(format!("from_utf8({:02x?}) text differs", bytes));
            }
        }
        (Err(e), Err(t)) => {
            let a = e.utf8_error();
            if (a.valid_up_to(), a.error_len()) != (t.valid_up_to(), t.error_len()) {
                return Some(format!("from_utf8({:02x?}) error ({}, {:?}) vs std ({}, {:?})", bytes, a.valid_up_to(), a.error_len(), t.valid_up_to(), t.error_len()));
            }
            if e.as_bytes() != bytes {
                return Some(format!("from_utf8({:02x?}) error does not hand back the bytes", bytes));
            }
        }
        (Ok(_), Err(_)) => return Some(format!("from_utf8 accepts {:02x?}, std rejects it", bytes)),
        (Err(_), Ok(_)) => return Some(format!("from_utf8 rejects {:02x?}, std accepts it", bytes)),
    }
    // a canary right above where the decoder's buffer will be placed (the arena bumps downwards): a decoder that writes
    // past its reservation is caught on this very input, before the damage can spread to later ones
    let canary: &mut [u8] = bump.alloc_slice_fill_copy(24, 0xC5u8);
    let canary_ptr = canary.as_ptr();
    let ls = BString::from_utf8_lossy_in(bytes, bump);
    let lt = String::from_utf8_lossy(bytes);
    if unsafe { std::slice::from_raw_parts(canary_ptr, 24) }.iter().any(|x| *x != 0xC5) {
        return Some(format!("from_utf8_lossy_in({:02x?}) wrote outside its own buffer (a neighbouring live block changed)", bytes));
    }
    if ls.len() > ls.capacity() {
        return Some(format!("from_utf8_lossy_in({:02x?}) has len {} > capacity {}", bytes, ls.len(), ls.capacity()));
    }
    if std::str::from_utf8(ls.as_bytes()).is_err() {
        return Some(format!("from_utf8_lossy_in({:02x?}) produced invalid UTF-8: {:02x?}", bytes, ls.as_bytes()));
    }
    if ls.as_bytes() != lt.as_bytes() {
        return Some(format!("from_utf8_lossy_in({:02x?}) = {:?}, std gives {:?}", bytes, ls.as_str(), lt));
    }
    None
}

pub fn check_u16(bump: &Bump, units: &[u16]) -> Option<String> {
    match std::panic::catch_unwind(std::panic::AssertUnwindSafe(|| check_u16_inner(bump, units))) {
        Ok(r) => r,
        Err(e) => Some(format!("from_utf16_in({:04x?}) panicked ({}) where std's from_utf16 returns normally", units, crate::sim::panic_msg(e))),
    }
}

fn check_u16_inner(bump: &Bump, units: &[u16]) -> Option<String> {
    let canary: &mut [u8] = bump.alloc_slice_fill_copy(24, 0xC5u8);
    let canary_ptr = canary.as_ptr();
    let rs = BString::from_utf16_in(units, bump);
    let rt = String::from_utf16(units);
    if unsafe { std::slice::from_raw_parts(canary_ptr, 24) }.iter().any(|x| *x != 0xC5) {
        return Some(format!("from_utf16_in({:04x?}) wrote outside its own buffer (a neighbouring live block changed)", units));
    }
    if let Ok(s) = &rs {
        if s.len() > s.capacity() {
            return Some(format!("from_utf16_in({:04x?}) has len {} > capacity {}", units, s.len(), s.capacity()));
        }
    }
    // validity first, on the bytes: text that is not UTF-8 must never be formatted or compared as a str
    if let Ok(s) = &rs {
        if std::str::from_utf8(s.as_bytes()).is_err() {
            return Some(format!("from_utf16_in({:04x?}) produced invalid UTF-8: {:02x?}", units, s.as_bytes()));
        }
    }
    match (rs, rt) {
        (Ok(s), Ok(t)) => {
            if s.as_bytes() != t.as_bytes() {
                Some(format!("from_utf16_in({:04x?}) = {:?}, std gives {:?}", units, s.as_str(), t))
            } else {
                None
            }
        }
        (Err(_), Err(_)) => None,
        (Ok(s), Err(_)) => Some(format!("from_utf16_in accepts {:04x?} (-> {:?}), std rejects it", units, s.as_str())),
        (Err(_), Ok(t)) => Some(format!("from_utf16_in rejects {:04x?}, std accepts it (-> {:?})", units, t)),
    }
}

/// Exhaustive sweeps, partitioned over workers by the first element.
pub fn decoder_sweep(tier: Tier, idx: u32, nworkers: u32) -> SweepOut {
    crate::runner::install_quiet_panic_hook();
    let mut out = SweepOut { exhaustive: true, ..Default::default() };
    let mut bump = Bump::new();
    let maxlen_classes = if tier == Tier::Thorough { 5 } else { 4 };
    let mut n_invalid = 0u64;
    let mut n_bytes = 0u64;
    let mut n_u16 = 0u64;
    let mut since_reset = 0u32;
    let mut run_bytes = |bytes: &[u8], out: &mut SweepOut, bump: &mut Bump| {
        n_bytes += 1;
        since_reset += 1;
        if std::str::from_utf8(bytes).is_err() {
            n_invalid += 1;
        }
        if let Some(m) = check_bytes(bump, bytes) {
            if out.viol.len() < 3 {
                out.viol.push((m, json!({"kind": "bytes", "hex": hex(bytes)})));
            }
        }
        if since_reset >= 4096 {
            bump.reset();
            since_reset = 0;
        }
    };
    // (1) all byte strings of length <= 2 over all 256 values: partition by first byte
    if idx == 0 {
        run_bytes(&[], &mut out, &mut bump);
    }
    for b0 in 0..=255u8 {
        if (b0 as u32) % nworkers != idx {
            continue;
        }
        // coarse-grained note of where the sweep is, so that a worker killed outright (abort, SIGSEGV) can be reproduced
        crate::runner::sweep_note(&json!({"kind": "slice_b0", "b0": b0, "thorough": tier == Tier::Thorough}));
        run_bytes(&[b0], &mut out, &mut bump);
        for b1 in 0..=255u8 {
            run_bytes(&[b0, b1], &mut out, &mut bump);
            if tier == Tier::Thorough {
                // length 3 over all 256 values for the first two, classes for the third
                for &b2 in BYTE_CLASSES.iter() {
                    run_bytes(&[b0, b1, b2], &mut out, &mut bump);
                }
            }
        }
    }
    // (2) strings over the class alphabet up to maxlen_classes
    for (i0, &c0) in BYTE_CLASSES.iter().enumerate() {
        if (i0 as u32) % nworkers != idx {
            continue;
        }
        crate::runner::sweep_note(&json!({"kind": "slice_c0", "i0": i0, "maxlen": maxlen_classes}));
        let mut buf = vec![c0];
        fn rec(buf: &mut Vec<u8>, maxlen: usize, f: &mut dyn FnMut(&[u8])) {
            f(buf);
            if buf.len() == maxlen {
                return;
            }
            for &c in BYTE_CLASSES.iter() {
                buf.push(c);
                rec(buf, maxlen, f);
                buf.pop();
            }
        }
        let mut f = |b: &[u8]| run_bytes(b, &mut out, &mut bump);
        rec(&mut buf, maxlen_classes, &mut f);
    }
    // (3) u16 sequences over the class alphabet up to length 5
    let mut u16_mismatch: Vec<(String, Value)> = vec![];
    for (i0, &u0) in U16_CLASSES.iter().enumerate() {
        if (i0 as u32) % nworkers != idx {
            continue;
        }
        crate::runner::sweep_note(&json!({"kind": "slice_u0", "i0": i0}));
        let mut buf = vec![u0];
        fn rec16(buf: &mut Vec<u16>, maxlen: usize, f: &mut dyn FnMut(&[u16])) {
            f(buf);
            if buf.len() == maxlen {
                return;
            }
            for &c in U16_CLASSES.iter() {
                buf.push(c);
                rec16(buf, maxlen, f);
                buf.pop();
            }
        }
        let mut cnt = 0u32;
        let mut f = |u: &[u16]| {
            n_u16 += 1;
            cnt += 1;
            if let Some(m) = check_u16(&bump, u) {
                if u16_mismatch.len() < 3 {
                    u16_mismatch.push((m, json!({"kind": "u16", "units": u})));
                }
            }
        };
        rec16(&mut buf, 5, &mut f);
        bump.reset();
    }
    // (4) every single u16 unit, alone and with a class unit before / after it
    for u in 0..=0xFFFFu32 {
        if u % nworkers != idx {
            continue;
        }
        let u = u as u16;
        if u % 256 == 0 || (u as u32) < nworkers * 2 {
            crate::runner::sweep_note(&json!({"kind": "slice_unit", "from": u, "step": nworkers, "count": 256 / nworkers.max(1) + 2}));
        }
        let mut one = |seq: &[u16]| {
            n_u16 += 1;
            if let Some(m) = check_u16(&bump, seq) {
                if u16_mismatch.len() < 3 {
                    u16_mismatch.push((m, json!({"kind": "u16", "units": seq})));
                }
            }
        };
        one(&[u]);
        for &c in U16_CLASSES.iter() {
            one(&[c, u]);
            one(&[u, c]);
        }
        if u % 1024 == 0 {
            bump.reset();
        }
    }
    out.viol.extend(u16_mismatch);
    out.evaluations = n_bytes + n_u16;
    out.nontrivial = n_invalid;
    let mut extra = BTreeMap::new();
    extra.insert("byte_strings".to_string(), json!(n_bytes));
    extra.insert("byte_strings_invalid_utf8".to_string(), json!(n_invalid));
    extra.insert("u16_sequences".to_string(), json!(n_u16));
    out.extra = extra;
    decoder_random(tier, idx, &mut out);
    if idx == 0 {
        out.samples = vec![json!({"bytes": "e0 9f 80 (overlong 3-byte form): from_utf8 must fail with valid_up_to 0, error_len 1; lossy gives three U+FFFD"}), json!({"u16": "d800 0041: unpaired high surrogate must be rejected"})];
    }
    out
}

/// Structure-aware random part: valid text with injected truncations, stray continuation bytes,
/// overlong forms, surrogates, values above U+10FFFF; UTF-16 with lone / swapped surrogates.
pub fn decoder_random(tier: Tier, idx: u32, out: &mut SweepOut) {
    use proptest::prelude::*;
    use proptest::strategy::ValueTree;
    use proptest::test_runner::{Config, RngSeed, TestRunner};
    let n = if tier == Tier::Thorough { 60_000 } else { 6_000 };
    let mut runner = TestRunner::new(Config { rng_seed: RngSeed::Fixed(seed_from_env().wrapping_mul(977) ^ (idx as u64) << 20 ^ 0xdec0de), failure_persistence: None, ..Config::default() });
    let ch = prop_oneof![4 => proptest::sample::select(CHARS.to_vec()), 2 => any::<char>()];
    let injection = prop_oneof![
        Just(vec![0x80u8]), Just(vec![0xBF]), Just(vec![0xC0, 0x80]), Just(vec![0xC1, 0xBF]), Just(vec![0xE0, 0x80, 0x80]), Just(vec![0xE0, 0x9F, 0xBF]),
        Just(vec![0xED, 0xA0, 0x80]), Just(vec![0xED, 0xBF, 0xBF]), Just(vec![0xF0, 0x80, 0x80, 0x80]), Just(vec![0xF0, 0x8F, 0xBF, 0xBF]), Just(vec![0xF4, 0x90, 0x80, 0x80]),
        Just(vec![0xF5]), Just(vec![0xFF]), Just(vec![0xE2, 0x82]), Just(vec![0xF0, 0x9F, 0x98]), Just(vec![0xC3]), proptest::collection::vec(any::<u8>(), 1..4),
    ];
    let bytes_strat = (proptest::collection::vec(ch.clone(), 0..24), proptest::collection::vec((any::<u16>(), injection), 0..4), any::<u16>()).prop_map(|(chars, inj, cut)| {
        let mut b: Vec<u8> = chars.iter().collect::<String>().into_bytes();
        for (pos, bytes) in inj {
            let at = if b.is_empty() { 0 } else { pos as usize % (b.len() + 1) };
            for (k, x) in bytes.iter().enumerate() {
                b.insert(at + k, *x);
            }
        }
        if cut % 3 == 0 && !b.is_empty() {
            b.truncate(cut as usize % (b.len() + 1));
        }
        b
    });
    let u16_strat = (proptest::collection::vec(ch, 0..16), proptest::collection::vec((any::<u16>(), prop_oneof![Just(0xD800u16), Just(0xDBFF), Just(0xDC00), Just(0xDFFF), any::<u16>()]), 0..4)).prop_map(|(chars, inj)| {
        let mut u: Vec<u16> = chars.iter().collect::<String>().encode_utf16().collect();
        for (pos, x) in inj {
            let at = if u.is_empty() { 0 } else { pos as usize % (u.len() + 1) };
            u.insert(at, x);
        }
        u
    });
    let mut bump = Bump::new();
    let (mut nb, mut nu, mut ninv) = (0u64, 0u64, 0u64);
    for i in 0..n {
        if let Ok(t) = bytes_strat.new_tree(&mut runner) {
            let b = t.current();
            nb += 1;
            if std::str::from_utf8(&b).is_err() {
                ninv += 1;
            }
            if let Some(m) = check_bytes(&bump, &b) {
                if out.viol.len() < 3 {
                    out.viol.push((m, json!({"kind": "bytes", "hex": hex(&b)})));
                }
            }
        }
        if i % 3 == 0 {
            if let Ok(t) = u16_strat.new_tree(&mut runner) {
                let u = t.current();
                nu += 1;
                if String::from_utf16(&u).is_err() {
                    ninv += 1;
                }
                if let Some(m) = check_u16(&bump, &u) {
                    if out.viol.len() < 3 {
                        out.viol.push((m, json!({"kind": "u16", "units": u})));
                    }
                }
            }
        }
        if i % 2048 == 0 {
            bump.reset();
        }
    }
    out.evaluations += nb + nu;
    out.nontrivial += ninv;
    out.extra.insert("random_structured_byte_strings".into(), json!(nb));
    out.extra.insert("random_structured_u16_sequences".into(), json!(nu));
    out.extra.insert("random_structured_inputs_invalid".into(), json!(ninv));
}

pub fn replay_decoder_item(item: &Value) -> Vec<String> {
    let mut bump = Bump::new();
    let kind = item["kind"].as_str().unwrap_or("");
    if kind.starts_with("slice_") {
        // a slice of the exhaustive sweep (noted before a worker died in it): run it again in the same order
        let mut msgs: Vec<String> = vec![];
        let mut n = 0u32;
        let mut fb = |b: &[u8], bump: &mut Bump, msgs: &mut Vec<String>| {
            if let Some(m) = check_bytes(bump, b) {
                if msgs.len() < 3 {
                    msgs.push(m);
                }
            }
        };
        match kind {
            "slice_b0" => {
                let b0 = item["b0"].as_u64().unwrap_or(0) as u8;
                fb(&[b0], &mut bump, &mut msgs);
                for b1 in 0..=255u8 {
                    fb(&[b0, b1], &mut bump, &mut msgs);
                    if item["thorough"].as_bool().unwrap_or(false) {
                        for &b2 in BYTE_CLASSES.iter() {
                            fb(&[b0, b1, b2], &mut bump, &mut msgs);
                        }
                    }
                    n += 1;
                    if n % 16 == 0 {
                        bump.reset();
                    }
                }
            }
            "slice_c0" => {
                let i0 = item["i0"].as_u64().unwrap_or(0) as usize % BYTE_CLASSES.len();
                let maxlen = item["maxlen"].as_u64().unwrap_or(4) as usize;
                let mut stack: Vec<Vec<u8>> = vec![vec![BYTE_CLASSES[i0]]];
                while let Some(cur) = stack.pop() {
                    fb(&cur, &mut bump, &mut msgs);
                    n += 1;
                    if n % 4096 == 0 {
                        bump.reset();
                    }
                    if cur.len() < maxlen {
                        for &c in BYTE_CLASSES.iter().rev() {
                            let mut nx = cur.clone();
                            nx.push(c);
                            stack.push(nx);
                        }
                    }
                }
            }
            "slice_u0" => {
                let i0 = item["i0"].as_u64().unwrap_or(0) as usize % U16_CLASSES.len();
                let mut stack: Vec<Vec<u16>> = vec![vec![U16_CLASSES[i0]]];
                while let Some(cur) = stack.pop() {
                    if let Some(m) = check_u16(&bump, &cur) {
                        if msgs.len() < 3 {
                            msgs.push(m);
                        }
                    }
                    if cur.len() < 5 {
                        for &c in U16_CLASSES.iter().rev() {
                            let mut nx = cur.clone();
                            nx.push(c);
                            stack.push(nx);
                        }
                    }
                }
            }
            _ => {
                let from = item["from"].as_u64().unwrap_or(0) as u32;
                let step = item["step"].as_u64().unwrap_or(1).max(1) as u32;
                let count = item["count"].as_u64().unwrap_or(1) as u32;
                for k in 0..count {
                    let u = from + k * step;
                    if u > 0xFFFF {
                        break;
                    }
                    let u = u as u16;
                    let mut seqs: Vec<Vec<u16>> = vec![vec![u]];
                    for &c in U16_CLASSES.iter() {
                        seqs.push(vec![c, u]);
                        seqs.push(vec![u, c]);
                    }
                    for sq in seqs {
                        if let Some(m) = check_u16(&bump, &sq) {
                            if msgs.len() < 3 {
                                msgs.push(m);
                            }
                        }
                    }
                }
            }
        }
        return msgs;
    }
    if item["kind"] == "u16" {
        let units: Vec<u16> = item["units"].as_array().map(|a| a.iter().map(|x| x.as_u64().unwrap_or(0) as u16).collect()).unwrap_or_default();
        check_u16(&bump, &units).into_iter().collect()
    } else {
        let bytes = unhex(item["hex"].as_str().unwrap_or(""));
        check_bytes(&bump, &bytes).into_iter().collect()
    }
}
