//! C17 — boxed::Box owns its value like std's Box without owning memory.

use crate::arena_eng::k_meta;
use crate::celem::*;
use crate::ledger::{self, enter_arena};
use crate::runner::*;
use crate::sim::panic_msg;
use bumpalo::boxed::Box as BBox;
use bumpalo::collections::Vec as BVec;
use bumpalo::Bump;
use proptest::prelude::*;
use proptest::strategy::BoxedStrategy;
use serde_json::{json, Value};
use std::any::Any;
use std::collections::hash_map::DefaultHasher;
use std::convert::TryFrom;
use std::future::Future;
use std::hash::{Hash, Hasher};
use std::panic::{catch_unwind, AssertUnwindSafe};
use std::pin::Pin;
use std::task::{Context, Poll, RawWaker, RawWakerVTable, Waker};

/// a hasher in which every entry point of the trait is overridden and distinguishable from every other
#[derive(Default, Clone)]
pub struct RecHasher {
    acc: u64,
}
impl RecHasher {
    fn mix(&mut self, tag: u8, bytes: &[u8]) {
        self.acc = (self.acc ^ tag as u64).wrapping_mul(0x100_0000_01b3).rotate_left(7);
        for b in bytes {
            self.acc = (self.acc ^ *b as u64).wrapping_mul(0x100_0000_01b3);
        }
        self.acc ^= bytes.len() as u64;
    }
}
impl Hasher for RecHasher {
    fn finish(&self) -> u64 {
        self.acc
    }
    fn write(&mut self, bytes: &[u8]) {
        self.mix(1, bytes)
    }
    fn write_u8(&mut self, i: u8) {
        self.mix(2, &i.to_le_bytes())
    }
    fn write_u16(&mut self, i: u16) {
        self.mix(3, &i.to_le_bytes())
    }
    fn write_u32(&mut self, i: u32) {
        self.mix(4, &i.to_le_bytes())
    }
    fn write_u64(&mut self, i: u64) {
        self.mix(5, &i.to_le_bytes())
    }
    fn write_u128(&mut self, i: u128) {
        self.mix(6, &i.to_le_bytes())
    }
    fn write_usize(&mut self, i: usize) {
        self.mix(7, &i.to_le_bytes())
    }
    fn write_i8(&mut self, i: i8) {
        self.mix(8, &i.to_le_bytes())
    }
    fn write_i16(&mut self, i: i16) {
        self.mix(9, &i.to_le_bytes())
    }
    fn write_i32(&mut self, i: i32) {
        self.mix(10, &i.to_le_bytes())
    }
    fn write_i64(&mut self, i: i64) {
        self.mix(11, &i.to_le_bytes())
    }
    fn write_i128(&mut self, i: i128) {
        self.mix(12, &i.to_le_bytes())
    }
    fn write_isize(&mut self, i: isize) {
        self.mix(13, &i.to_le_bytes())
    }
}

pub const NKINDS: u8 = 12;
pub const KIND_NAMES: [&str; NKINDS as usize] = [
    "ownership chain (Box<El>)", "array <-> slice conversions", "Vec -> boxed slice", "dyn Any downcast", "Display/Debug/Pointer forwarding",
    "Eq/Ord/Hash forwarding", "Hasher forwarding", "Iterator forwarding", "Future forwarding / pin_in", "Default for Box<[T]> and Box<str>",
    "zero-sized value", "Borrow/AsRef/AsMut/Deref",
];

struct Ctx {
    viol: Vec<String>,
    transfers: u32,
    failed_conv: u32,
    pos: [usize; 2],
}
impl Ctx {
    fn v(&mut self, m: String) {
        // scenarios run in arena mode: the message must not live in (and later be freed from) a block the ledger attributes to the arena
        let _u = ledger::enter_user();
        let m2 = String::from(m.as_str());
        drop(m);
        if self.viol.len() < 8 {
            self.viol.push(m2);
        }
    }
    /// drop ledgers of both sides must agree since the last call
    fn ledger(&mut self, what: &str) {
        let (a, pa) = dropped_since(0, self.pos[0]);
        let (b, pb) = dropped_since(1, self.pos[1]);
        self.pos = [pa, pb];
        if a != b {
            self.v(format!("{what}: payloads dropped {:?}, std Box dropped {:?}", a, b));
        }
        let dd = double_drops(0);
        if !dd.is_empty() {
            self.v(format!("{what}: values {:?} dropped more than once", dd));
        }
    }
}

fn noop_waker() -> Waker {
    fn clone(_: *const ()) -> RawWaker {
        RawWaker::new(std::ptr::null(), &VT)
    }
    fn noop(_: *const ()) {}
    static VT: RawWakerVTable = RawWakerVTable::new(clone, noop, noop, noop);
    unsafe { Waker::from_raw(RawWaker::new(std::ptr::null(), &VT)) }
}

struct PendingOnce {
    polled: u32,
    val: u32,
}
impl Future for PendingOnce {
    type Output = u32;
    fn poll(mut self: Pin<&mut Self>, _cx: &mut Context<'_>) -> Poll<u32> {
        self.polled += 1;
        if self.polled >= 2 {
            Poll::Ready(self.val)
        } else {
            Poll::Pending
        }
    }
}

macro_rules! fmt_all {
    ($x:expr) => {{
        let x = $x;
        vec![
            format!("{}", x),
            format!("{:>6}", x),
            format!("{:<8}|", x),
            format!("{:^7}|", x),
            format!("{:*^9}", x),
            format!("{:10.3}|", x),
            format!("{:.2}", x),
            format!("{:?}", x),
            format!("{:#?}", x),
            format!("{:>12?}", x),
        ]
    }};
}
macro_rules! fmt_num {
    ($x:expr) => {{
        let x = $x;
        let mut v = fmt_all!(x);
        v.push(format!("{:06}", x));
        v.push(format!("{:+}", x));
        v.push(format!("{:+08.1}", x));
        v
    }};
}

fn arena_cap(b: &Bump) -> (usize, usize) {
    (b.chunk_capacity(), b.allocated_bytes())
}

pub fn run_box_case(bytes: &[u8]) -> (Vec<String>, bool, Vec<u32>) {
    let _ = k_meta();
    ledger::begin_case(9);
    reset_sides();
    z_reset();
    let g = |i: usize| bytes.get(i).cloned().unwrap_or(0);
    let kind = g(0) % NKINDS;
    let mut cx = Ctx { viol: vec![], transfers: 0, failed_conv: 0, pos: [0, 0] };
    let bump = {
        let _g = enter_arena(1);
        Bump::new()
    };
    let b = &bump;
    let r = catch_unwind(AssertUnwindSafe(|| {
        let _g = enter_arena(1);
        match kind {
            0 => {
                let val = g(1) as u32;
                let mut s: BBox<El<0>> = BBox::new_in(El::new(val), b);
                let mut t: Box<El<1>> = Box::new(El::new(val));
                for step in 0..(g(2) % 7) as usize {
                    match g(4 + step) % 5 {
                        0 => {
                            if s.val != t.val {
                                cx.v(format!("deref: Box holds {} but was given {}", s.val, t.val));
                            }
                        }
                        1 => {
                            let nv = g(4 + step) as u32 * 3;
                            s.val = nv;
                            t.val = nv;
                        }
                        2 => {
                            cx.transfers += 1;
                            let p = BBox::into_raw(s);
                            cx.ledger("into_raw");
                            s = unsafe { BBox::from_raw(p) };
                            let q = Box::into_raw(t);
                            t = unsafe { Box::from_raw(q) };
                        }
                        3 => {
                            // replace the value through DerefMut: old value dropped by the assignment
                            let nv = g(4 + step) as u32;
                            *s = El::new(nv);
                            *t = El::new(nv);
                            cx.ledger("assignment through DerefMut");
                        }
                        _ => {
                            let r: &El<0> = s.as_ref();
                            if r.val != t.as_ref().val {
                                cx.v("AsRef gives a different value".into());
                            }
                        }
                    }
                }
                let cap0 = arena_cap(b);
                match g(3) % 5 {
                    0 => {
                        drop(s);
                        drop(t);
                        cx.ledger("drop(Box)");
                    }
                    1 => {
                        cx.transfers += 1;
                        let x = BBox::into_inner(s);
                        let y = *t;
                        cx.ledger("into_inner (value still owned by the caller)");
                        if x.val != y.val {
                            cx.v(format!("into_inner returned {} instead of {}", x.val, y.val));
                        }
                        drop(x);
                        drop(y);
                        cx.ledger("dropping the value returned by into_inner");
                    }
                    2 => {
                        cx.transfers += 1;
                        let x = BBox::leak(s);
                        let y = Box::leak(t);
                        if x.val != y.val {
                            cx.v("leak returned a different value".into());
                        }
                        cx.ledger("leak");
                    }
                    3 => {
                        cx.transfers += 1;
                        let _ = BBox::into_raw(s);
                        let _ = Box::into_raw(t);
                        cx.ledger("into_raw without from_raw");
                    }
                    _ => {
                        cx.transfers += 1;
                        let ps: Pin<BBox<El<0>>> = s.into();
                        let pt: Pin<Box<El<1>>> = t.into();
                        if ps.val != pt.val {
                            cx.v("Pin<Box> derefs to a different value".into());
                        }
                        drop(ps);
                        drop(pt);
                        cx.ledger("drop(Pin<Box>)");
                    }
                }
                if arena_cap(b) != cap0 {
                    cx.v(format!("letting go of a Box changed the arena: chunk_capacity/allocated_bytes {:?} -> {:?}", cap0, arena_cap(b)));
                }
            }
            1 if g(3) % 3 == 2 => {
                // zero-sized elements: every slice has the same (empty) layout, only the length tells them apart
                let len = (g(1) % 6) as usize;
                let s: BBox<[Zs<0>]> = BBox::from_iter_in((0..len).map(|_| Zs::new()), b);
                let t: Box<[Zs<1>]> = (0..len).map(|_| Zs::new()).collect();
                cx.transfers += 1;
                macro_rules! conv {
                    ($n:expr) => {{
                        match (BBox::<[Zs<0>; $n]>::try_from(s), Box::<[Zs<1>; $n]>::try_from(t)) {
                            (Ok(a), Ok(c)) => {
                                drop(a);
                                drop(c);
                            }
                            (Err(a), Err(c)) => {
                                cx.failed_conv += 1;
                                if a.len() != c.len() {
                                    cx.v(format!("failed TryFrom handed back a boxed slice of {} zero-sized elements instead of {}", a.len(), c.len()));
                                }
                                drop(a);
                                drop(c);
                            }
                            (Ok(a), Err(c)) => {
                                cx.v(format!("Box<[Zst]> of length {len} converted into Box<[Zst; {}]> where std refuses", $n));
                                drop(a);
                                drop(c);
                            }
                            (Err(a), Ok(c)) => {
                                cx.v(format!("Box<[Zst]> of length {len} refused to convert into Box<[Zst; {}]> where std converts", $n));
                                drop(a);
                                drop(c);
                            }
                        }
                    }};
                }
                match g(2) % 4 {
                    0 => conv!(0),
                    1 => conv!(2),
                    2 => conv!(3),
                    _ => conv!(5),
                }
                // and the other direction: a boxed array of N zero-sized elements becomes a boxed slice of N elements
                // (zero bytes is not zero elements), without running a destructor on the way
                macro_rules! arr_to_slice {
                    ($n:expr) => {{
                        let sa: BBox<[Zs<0>; $n]> = BBox::new_in(std::array::from_fn(|_| Zs::new()), b);
                        let ta: Box<[Zs<1>; $n]> = Box::new(std::array::from_fn(|_| Zs::new()));
                        let before = (z_counts(0), z_counts(1));
                        let ss: BBox<[Zs<0>]> = sa.into();
                        let ts: Box<[Zs<1>]> = ta;
                        if (z_counts(0), z_counts(1)) != before {
                            cx.v(format!("Box<[Zst; {}]> -> Box<[Zst]> ran destructors or created values: {:?} -> {:?}", $n, before, (z_counts(0), z_counts(1))));
                        }
                        if ss.len() != ts.len() {
                            cx.v(format!("Box<[Zst; {}]> -> Box<[Zst]> has length {} instead of {}", $n, ss.len(), ts.len()));
                        }
                        if g(4) & 1 == 0 {
                            if BBox::<[Zs<0>; $n]>::try_from(ss).is_err() {
                                cx.v(format!("Box<[Zst; {}]> -> Box<[Zst]> -> Box<[Zst; {}]> does not round-trip", $n, $n));
                            }
                            drop(ts);
                        } else {
                            drop(ss);
                            drop(ts);
                        }
                    }};
                }
                match g(5) % 4 {
                    0 => arr_to_slice!(0),
                    1 => arr_to_slice!(1),
                    2 => arr_to_slice!(3),
                    _ => arr_to_slice!(7),
                }
                let unit: BBox<[(); 4]> = BBox::new_in([(); 4], b);
                let unit: BBox<[()]> = unit.into();
                if unit.len() != 4 {
                    cx.v(format!("Box<[(); 4]> -> Box<[()]> has length {}", unit.len()));
                }
                let (zm, zd) = z_counts(0);
                let (tm, td) = z_counts(1);
                if (zm, zd) != (tm, td) {
                    cx.v(format!("zero-sized elements: created/dropped {:?}, std {:?}", (zm, zd), (tm, td)));
                }
            }
            1 => {
                let v0 = g(1) as u32;
                let s: BBox<[El<0>; 3]> = BBox::new_in([El::new(v0), El::new(v0 + 1), El::new(v0 + 2)], b);
                let t: Box<[El<1>; 3]> = Box::new([El::new(v0), El::new(v0 + 1), El::new(v0 + 2)]);
                cx.transfers += 1;
                let s: BBox<[El<0>]> = s.into();
                let t: Box<[El<1>]> = t;
                cx.ledger("Box<[T; 3]> -> Box<[T]>");
                let vs: Vec<u32> = s.iter().map(|x| x.val).collect();
                let vt: Vec<u32> = t.iter().map(|x| x.val).collect();
                if vs != vt {
                    cx.v(format!("array -> slice conversion changed the elements: {:?} vs {:?}", vs, vt));
                }
                if g(2) & 1 == 0 {
                    cx.transfers += 1;
                    match (BBox::<[El<0>; 3]>::try_from(s), Box::<[El<1>; 3]>::try_from(t)) {
                        (Ok(a), Ok(c)) => {
                            cx.ledger("Box<[T]> -> Box<[T; 3]>");
                            let va: Vec<u32> = a.iter().map(|x| x.val).collect();
                            let vc: Vec<u32> = c.iter().map(|x| x.val).collect();
                            if va != vc {
                                cx.v(format!("slice -> array conversion changed the elements: {:?} vs {:?}", va, vc));
                            }
                            drop(a);
                            drop(c);
                        }
                        (Err(_), Err(_)) => {}
                        _ => cx.v("TryFrom<Box<[T]>> for Box<[T; 3]> disagrees with std".into()),
                    }
                } else {
                    cx.failed_conv += 1;
                    match (BBox::<[El<0>; 2]>::try_from(s), Box::<[El<1>; 2]>::try_from(t)) {
                        (Err(a), Err(c)) => {
                            cx.ledger("failed Box<[T]> -> Box<[T; 2]>");
                            let va: Vec<u32> = a.iter().map(|x| x.val).collect();
                            let vc: Vec<u32> = c.iter().map(|x| x.val).collect();
                            if va != vc {
                                cx.v(format!("failed TryFrom did not hand back the same boxed slice: {:?} vs {:?}", va, vc));
                            }
                            drop(a);
                            drop(c);
                        }
                        _ => cx.v("TryFrom<Box<[T]>> for Box<[T; 2]> on 3 elements did not fail like std".into()),
                    }
                }
                cx.ledger("end of conversions");
            }
            2 => {
                let n = (g(1) % 9) as usize;
                let vals: Vec<u32> = (0..n).map(|j| g(3 + j) as u32).collect();
                cx.transfers += 1;
                let (s, t): (BBox<[El<0>]>, Box<[El<1>]>) = match g(2) % 7 {
                    5 => {
                        // Iterator::collect_in straight into a boxed slice (exact and filtered iterators)
                        use bumpalo::collections::CollectIn;
                        (vals.iter().map(|&x| El::new(x)).collect_in::<BBox<[El<0>]>>(b), vals.iter().map(|&x| El::new(x)).collect())
                    }
                    6 => {
                        use bumpalo::collections::CollectIn;
                        (vals.iter().filter(|&&x| x % 3 != 0).map(|&x| El::new(x)).collect_in::<BBox<[El<0>]>>(b), vals.iter().filter(|&&x| x % 3 != 0).map(|&x| El::new(x)).collect())
                    }
                    3 | 4 => {
                        // a vector with plenty of spare capacity (possibly truncated) that is the newest allocation
                        let mut v: BVec<El<0>> = BVec::with_capacity_in(2 * n + 4 + (g(12) as usize % 8), b);
                        v.extend(vals.iter().map(|&x| El::new(x)));
                        let mut w: Vec<El<1>> = vals.iter().map(|&x| El::new(x)).collect();
                        if g(2) % 5 == 4 && n > 1 {
                            v.truncate(n / 2);
                            w.truncate(n / 2);
                        }
                        (v.into_boxed_slice(), w.into_boxed_slice())
                    }
                    0 => {
                        let v: BVec<El<0>> = BVec::from_iter_in(vals.iter().map(|&x| El::new(x)), b);
                        (v.into_boxed_slice(), vals.iter().map(|&x| El::new(x)).collect::<Vec<_>>().into_boxed_slice())
                    }
                    1 => {
                        let v: BVec<El<0>> = BVec::from_iter_in(vals.iter().map(|&x| El::new(x)), b);
                        (v.into(), vals.iter().map(|&x| El::new(x)).collect::<Vec<_>>().into())
                    }
                    _ => (BBox::from_iter_in(vals.iter().map(|&x| El::new(x)), b), vals.iter().map(|&x| El::new(x)).collect()),
                };
                cx.ledger("building a boxed slice");
                let vs: Vec<u32> = s.iter().map(|x| x.val).collect();
                let vt: Vec<u32> = t.iter().map(|x| x.val).collect();
                if vs != vt || s.len() != t.len() {
                    cx.v(format!("boxed slice holds {:?} but std's holds {:?} (built from {:?})", vs, vt, vals));
                }
                // the box must keep its elements while other things are allocated in the same arena
                let other = b.alloc_slice_fill_copy(24 + g(13) as usize % 40, 0xEEu8);
                let other2 = b.alloc(0xDEAD_BEEFu32);
                let vs2: Vec<u32> = s.iter().map(|x| x.val).collect();
                if vs2 != vt {
                    cx.v(format!("boxed slice changed from {:?} to {:?} when something else was allocated in the arena", vt, vs2));
                }
                if other.iter().any(|x| *x != 0xEE) || *other2 != 0xDEAD_BEEF {
                    cx.v("a later allocation overlaps the boxed slice's elements".into());
                }
                for x in s.iter() {
                    if drops_of(0, x.id) != 0 {
                        cx.v(format!("element #{} of the boxed slice was already dropped", x.id));
                    }
                }
                let cap0 = arena_cap(b);
                drop(s);
                drop(t);
                cx.ledger("drop(Box<[T]>)");
                if arena_cap(b) != cap0 {
                    cx.v("dropping a boxed slice changed the arena's memory".into());
                }
            }
            3 => {
                let val = g(1) as u64 * 1000 + 7;
                let send = g(2) & 1 == 1;
                let target = g(3) % 3;
                macro_rules! go {
                    ($dyn:ty) => {{
                        let s: BBox<$dyn> = unsafe { BBox::from_raw(BBox::into_raw(BBox::new_in(val, b)) as *mut $dyn) };
                        let t: Box<$dyn> = Box::new(val);
                        cx.transfers += 1;
                        match target {
                            0 => match (s.downcast::<u64>(), t.downcast::<u64>()) {
                                (Ok(x), Ok(y)) => {
                                    if *x != *y {
                                        cx.v(format!("downcast::<u64> gave {} instead of {}", *x, *y));
                                    }
                                }
                                _ => cx.v("downcast to the matching type failed".into()),
                            },
                            1 => {
                                cx.failed_conv += 1;
                                match (s.downcast::<u32>(), t.downcast::<u32>()) {
                                    (Err(x), Err(y)) => match (x.downcast::<u64>(), y.downcast::<u64>()) {
                                        (Ok(x), Ok(y)) => {
                                            if *x != *y {
                                                cx.v("value changed across a failed downcast".into());
                                            }
                                        }
                                        _ => cx.v("after a failed downcast the box no longer downcasts to its real type".into()),
                                    },
                                    _ => cx.v("downcast to a non-matching type succeeded".into()),
                                }
                            }
                            _ => {
                                cx.failed_conv += 1;
                                if s.downcast::<String>().is_ok() {
                                    cx.v("downcast::<String> on a u64 succeeded".into());
                                }
                                drop(t);
                            }
                        }
                    }};
                }
                if send {
                    go!(dyn Any + Send)
                } else {
                    go!(dyn Any)
                }
                // a droppable value behind dyn Any / dyn Any + Send: matching and failed downcasts must neither drop nor
                // duplicate it (the failed one hands the same box back)
                macro_rules! droppy {
                    ($dyn:ty) => {{
                        let s: BBox<$dyn> = unsafe { BBox::from_raw(BBox::into_raw(BBox::new_in(El::<0>::new(5), b)) as *mut $dyn) };
                        let t: Box<$dyn> = Box::new(El::<1>::new(5));
                        match g(4) % 4 {
                            0 => {
                                drop(s);
                                drop(t);
                            }
                            1 => {
                                let x = s.downcast::<El<0>>().ok().map(|x| x.val);
                                let y = t.downcast::<El<1>>().ok().map(|y| y.val);
                                if x != y {
                                    cx.v("downcast of a droppable value disagrees with std".into());
                                }
                            }
                            m => {
                                cx.failed_conv += 1;
                                match (s.downcast::<u32>(), t.downcast::<u32>()) {
                                    (Err(s2), Err(t2)) => {
                                        cx.ledger("failed downcast of a droppable value (nothing may have been dropped yet)");
                                        if m == 2 {
                                            let x = s2.downcast::<El<0>>().ok().map(|x| x.val);
                                            let y = t2.downcast::<El<1>>().ok().map(|y| y.val);
                                            if x != y || x.is_none() {
                                                cx.v("after a failed downcast the box no longer downcasts to its real type with its value".into());
                                            }
                                        } else {
                                            drop(s2);
                                            drop(t2);
                                        }
                                    }
                                    _ => cx.v("downcast of a droppable value to a non-matching type succeeded".into()),
                                }
                            }
                        }
                    }};
                }
                if g(4) & 4 != 0 {
                    droppy!(dyn Any + Send)
                } else {
                    droppy!(dyn Any)
                }
                cx.ledger("dyn Any with destructor");
            }
            4 => {
                let _u = ledger::enter_user();
                let n = g(1) as i64 - 100;
                let f = g(2) as f64 / 7.0 - 3.0;
                let text = ["", "x", "héllo", "a longer piece of text"][(g(3) % 4) as usize];
                let (sn, sf) = {
                    let _g = enter_arena(1);
                    (BBox::new_in(n, b), BBox::new_in(f, b))
                };
                let ss: BBox<str> = {
                    let _g = enter_arena(1);
                    let st = bumpalo::collections::String::from_str_in(text, b).into_bump_str();
                    unsafe { BBox::from_raw(st as *const str as *mut str) }
                };
                if fmt_num!(&sn) != fmt_num!(&n) || fmt_num!(&sn) != fmt_num!(&Box::new(n)) {
                    cx.v(format!("Box<i64> formats differently from its value {n}: {:?} vs {:?}", fmt_num!(&sn), fmt_num!(&n)));
                }
                if fmt_num!(&sf) != fmt_num!(&f) {
                    cx.v(format!("Box<f64> formats differently from its value {f}: {:?} vs {:?}", fmt_num!(&sf), fmt_num!(&f)));
                }
                if fmt_all!(&ss) != fmt_all!(text) {
                    cx.v(format!("Box<str> formats differently from its value {:?}: {:?} vs {:?}", text, fmt_all!(&ss), fmt_all!(text)));
                }
                let p = format!("{:p}", sn);
                let q = format!("{:p}", &*sn as *const i64);
                if p != q {
                    cx.v(format!("Pointer formatting {p} differs from the address of the value {q}"));
                }
                std::mem::forget(ss);
            }
            5 => {
                let (x, y) = (g(1) as u64 % 4, g(2) as u64 % 4);
                let (sx, sy) = (BBox::new_in(x, b), BBox::new_in(y, b));
                let _u = ledger::enter_user();
                let got = (sx == sy, sx != sy, sx < sy, sx <= sy, sx > sy, sx >= sy, sx.cmp(&sy), sx.partial_cmp(&sy));
                let want = (x == y, x != y, x < y, x <= y, x > y, x >= y, x.cmp(&y), x.partial_cmp(&y));
                if got != want {
                    cx.v(format!("comparisons of Box({x}) and Box({y}) give {:?}, the values give {:?}", got, want));
                }
                // partially ordered contents: NaN, signed zeros, infinities; slices whose first differing pair is incomparable
                {
                let fl = [f64::NAN, -0.0, 0.0, 1.5, f64::INFINITY, f64::NEG_INFINITY, -f64::NAN];
                let (fx, fy) = (fl[(g(3) % 7) as usize], fl[(g(4) % 7) as usize]);
                let (bx, by) = {
                    let _g = enter_arena(1);
                    (BBox::new_in(fx, b), BBox::new_in(fy, b))
                };
                let gotf = (bx == by, bx != by, bx < by, bx <= by, bx > by, bx >= by, bx.partial_cmp(&by));
                let wantf = (fx == fy, fx != fy, fx < fy, fx <= fy, fx > fy, fx >= fy, fx.partial_cmp(&fy));
                if gotf != wantf {
                    cx.v(format!("comparisons of Box({fx}) and Box({fy}) give {:?}, the values give {:?}", gotf, wantf));
                }
                let (fsx, fsy): (BBox<[f64]>, BBox<[f64]>) = {
                    let _g = enter_arena(1);
                    (BBox::from_iter_in([1.0, fx, 2.0].iter().cloned(), b), BBox::from_iter_in([1.0, fy, 3.0].iter().cloned(), b))
                };
                let (vx, vy) = ([1.0, fx, 2.0], [1.0, fy, 3.0]);
                let gots = (fsx == fsy, fsx < fsy, fsx <= fsy, fsx > fsy, fsx >= fsy, fsx.partial_cmp(&fsy));
                let wants = (vx[..] == vy[..], vx[..] < vy[..], vx[..] <= vy[..], vx[..] > vy[..], vx[..] >= vy[..], vx[..].partial_cmp(&vy[..]));
                if gots != wants {
                    cx.v(format!("comparisons of boxed slices {:?} and {:?} give {:?}, the slices give {:?}", vx, vy, gots, wants));
                }
                }
                let h = |v: &dyn Fn(&mut DefaultHasher)| {
                    let mut hs = DefaultHasher::new();
                    v(&mut hs);
                    hs.finish()
                };
                if h(&|hs| sx.hash(hs)) != h(&|hs| x.hash(hs)) {
                    cx.v("Box<u64> hashes differently from its value".into());
                }
                let fl = (BBox::new_in(f64::NAN, b), BBox::new_in(1.0f64, b));
                if fl.0.partial_cmp(&fl.1) != f64::NAN.partial_cmp(&1.0) || (fl.0 == fl.0) != (f64::NAN == f64::NAN) {
                    cx.v("Box<f64> partial comparisons differ from the values'".into());
                }
            }
            6 => {
                let mut s: BBox<DefaultHasher> = BBox::new_in(DefaultHasher::new(), b);
                let mut t = DefaultHasher::new();
                for j in 0..(g(1) % 8) as usize {
                    let x = g(2 + j);
                    match x % 6 {
                        0 => {
                            s.write_u8(x);
                            t.write_u8(x);
                        }
                        1 => {
                            s.write_u32(x as u32 * 77);
                            t.write_u32(x as u32 * 77);
                        }
                        2 => {
                            s.write_u64(x as u64 * 1234567);
                            t.write_u64(x as u64 * 1234567);
                        }
                        3 => {
                            s.write(&[x, x.wrapping_add(1), 3]);
                            t.write(&[x, x.wrapping_add(1), 3]);
                        }
                        4 => {
                            s.write_usize(x as usize);
                            t.write_usize(x as usize);
                        }
                        _ => {
                            s.write_i16(-(x as i16));
                            t.write_i16(-(x as i16));
                        }
                    }
                }
                if s.finish() != t.finish() {
                    cx.v("Box<DefaultHasher> produces a different hash from the hasher itself".into());
                }
                // a hasher that overrides every entry point differently: each call must reach the entry point of the same name
                let mut rs: BBox<RecHasher> = BBox::new_in(RecHasher::default(), b);
                let mut rd: BBox<dyn Hasher> = unsafe { BBox::from_raw(b.alloc(RecHasher::default()) as &mut dyn Hasher as *mut dyn Hasher) };
                let mut rt = RecHasher::default();
                for j in 0..(2 + g(10) % 14) as usize {
                    let x = g(11 + j);
                    let w = (x as u64).wrapping_mul(0x9e37_79b9_7f4a_7c15) ^ ((g(12 + j) as u64) << 56);
                    let which = x % 20;
                    fn drive<H: Hasher>(h: &mut H, which: u8, w: u64) {
                        match which {
                            0 => h.write(&w.to_le_bytes()[..(w % 9) as usize]),
                            1 => h.write_u8(w as u8),
                            2 => h.write_u16(w as u16),
                            3 => h.write_u32(w as u32),
                            4 => h.write_u64(w),
                            5 => h.write_u128((w as u128) << 64 | !w as u128),
                            6 => h.write_usize(w as usize),
                            7 => h.write_i8(w as i8),
                            8 => h.write_i16(w as i16),
                            9 => h.write_i32(w as i32),
                            10 => h.write_i64(w as i64),
                            11 => h.write_i128(-((w as i128) << 3)),
                            12 => h.write_isize(w as isize),
                            // through the Hash impls of values, as collections do
                            13 => (w as isize).hash(h),
                            14 => (-(w as i64 >> 1) as isize, w as usize).hash(h),
                            15 => (w as i128, w as u8, w as i16).hash(h),
                            16 => [w as isize, -1, 0].hash(h),
                            17 => "text".hash(h),
                            18 => Some(w as i32).hash(h),
                            _ => (w as u16, 'x', true).hash(h),
                        }
                    }
                    drive(&mut rs, which, w);
                    drive(&mut rd, which, w);
                    drive(&mut rt, which, w);
                    if rs.finish() != rt.finish() || rd.finish() != rt.finish() {
                        cx.v(format!("a boxed hasher does not hash as the hasher it owns: after call kind {which} (0 write, 1-6 unsigned, 7-12 signed, 13+ through Hash impls) Box<H> reports {:#x}, Box<dyn Hasher> {:#x}, the hasher itself {:#x}", rs.finish(), rd.finish(), rt.finish()));
                        break;
                    }
                }
            }
            7 => {
                let n = (g(1) % 10) as usize;
                let vals: Vec<u32> = {
                    let _u = ledger::enter_user();
                    (0..n).map(|j| g(3 + j) as u32).collect()
                };
                let mut s = BBox::new_in(vals.clone().into_iter(), b);
                let mut t = vals.clone().into_iter();
                let _u = ledger::enter_user();
                for step in 0..(g(2) % 8) as usize {
                    let x = g(13 + step);
                    let (a, c) = match x % 6 {
                        0 => (format!("{:?}", s.next()), format!("{:?}", t.next())),
                        1 => (format!("{:?}", s.next_back()), format!("{:?}", t.next_back())),
                        2 => (format!("{:?}", s.nth((x / 6) as usize % 3)), format!("{:?}", t.nth((x / 6) as usize % 3))),
                        3 => (format!("{:?}", s.size_hint()), format!("{:?}", t.size_hint())),
                        4 => (format!("{:?}", s.len()), format!("{:?}", t.len())),
                        _ => (format!("{:?}", s.nth_back((x / 6) as usize % 2)), format!("{:?}", t.nth_back((x / 6) as usize % 2))),
                    };
                    if a != c {
                        cx.v(format!("Box<impl Iterator> step {step}: {a} but the iterator itself gives {c}"));
                    }
                }
                let rest_s: Vec<u32> = (&mut *s).collect();
                let rest_t: Vec<u32> = t.collect();
                if rest_s != rest_t {
                    cx.v(format!("Box<impl Iterator> yields {:?} where the iterator yields {:?}", rest_s, rest_t));
                }
                // unsized: Box<dyn Iterator>
                let it: BBox<dyn Iterator<Item = u32>> = {
                    let _g = enter_arena(1);
                    unsafe { BBox::from_raw(BBox::into_raw(BBox::new_in(vals.clone().into_iter().map(|x| x + 1), b)) as *mut dyn Iterator<Item = u32>) }
                };
                let got: Vec<u32> = it.collect();
                let want: Vec<u32> = vals.iter().map(|x| x + 1).collect();
                if got != want {
                    cx.v("Box<dyn Iterator> yields different items".into());
                }
                // consuming methods over iterators whose size_hint is exact, loose (filter, chars) or plainly wrong, boxed as
                // a sized value and as a trait object: the box must answer what the iterator itself answers
                let kind = g(22) % 5;
                let (lo, hi) = crate::vec_eng::hint_for(g(23), n);
                let text: String = vals.iter().map(|x| ['a', 'é', '€', '😀'][(*x % 4) as usize]).collect();
                let mk = || -> Box<dyn Iterator<Item = u32>> {
                    match kind {
                        0 => Box::new(vals.clone().into_iter()),
                        1 => Box::new(vals.clone().into_iter().filter(|x| x % 3 != 0)),
                        2 => Box::new(crate::vec_eng::Hinted { it: vals.clone().into_iter(), lo, hi }),
                        3 => Box::new(text.clone().chars().map(|c| c as u32).collect::<Vec<_>>().into_iter().take_while(|x| *x != 0x20AC)),
                        _ => Box::new(vals.clone().into_iter().chain(vals.clone().into_iter().skip_while(|x| x % 2 == 0))),
                    }
                };
                for fin in 0..6u8 {
                    let boxed_sized = {
                        let _g = enter_arena(1);
                        BBox::new_in(mk(), b)
                    };
                    let boxed_dyn: BBox<dyn Iterator<Item = u32>> = {
                        let _g = enter_arena(1);
                        unsafe { BBox::from_raw(BBox::into_raw(BBox::new_in(mk(), b)) as *mut dyn Iterator<Item = u32>) }
                    };
                    let k = (g(24) % 4) as usize;
                    let run = |it: &mut dyn Iterator<Item = u32>| -> String {
                        match fin {
                            0 => format!("last {:?}", it.last()),
                            1 => format!("count {}", it.count()),
                            2 => format!("sum {}", it.fold(0u64, |a, x| a + x as u64)),
                            3 => format!("nth({k}) {:?} then {:?}", it.nth(k), it.next()),
                            4 => format!("max {:?}", it.max()),
                            _ => format!("hint {:?}", it.size_hint()),
                        }
                    };
                    let want = {
                        let mut plain = mk();
                        match fin {
                            0 => format!("last {:?}", plain.last()),
                            1 => format!("count {}", plain.count()),
                            2 => format!("sum {}", plain.fold(0u64, |a, x| a + x as u64)),
                            3 => format!("nth({k}) {:?} then {:?}", plain.nth(k), plain.next()),
                            4 => format!("max {:?}", plain.max()),
                            _ => format!("hint {:?}", plain.size_hint()),
                        }
                    };
                    // through the Box's own Iterator impl (method call on the box, not on its contents)
                    let got_sized = {
                        let mut bx = boxed_sized;
                        match fin {
                            0 => format!("last {:?}", bx.last()),
                            1 => format!("count {}", bx.count()),
                            2 => format!("sum {}", bx.fold(0u64, |a, x| a + x as u64)),
                            3 => format!("nth({k}) {:?} then {:?}", bx.nth(k), bx.next()),
                            4 => format!("max {:?}", bx.max()),
                            _ => format!("hint {:?}", bx.size_hint()),
                        }
                    };
                    let got_dyn = {
                        let mut bx = boxed_dyn;
                        match fin {
                            0 => format!("last {:?}", bx.last()),
                            1 => format!("count {}", bx.count()),
                            2 => format!("sum {}", bx.fold(0u64, |a, x| a + x as u64)),
                            3 => format!("nth({k}) {:?} then {:?}", bx.nth(k), bx.next()),
                            4 => format!("max {:?}", bx.max()),
                            _ => format!("hint {:?}", bx.size_hint()),
                        }
                    };
                    let _ = &run;
                    if got_sized != want || got_dyn != want {
                        cx.v(format!("boxed iterator (kind {kind}): Box<I> gives [{got_sized}], Box<dyn Iterator> gives [{got_dyn}], the iterator itself gives [{want}]"));
                    }
                }
            }
            8 => {
                let val = g(1) as u32;
                let waker = noop_waker();
                let mut c = Context::from_waker(&waker);
                let mut s = BBox::new_in(std::future::ready(val), b);
                match Pin::new(&mut s).poll(&mut c) {
                    Poll::Ready(x) if x == val => {}
                    other => cx.v(format!("Box<Ready<u32>> polled to {:?} instead of Ready({val})", other)),
                }
                let mut p = BBox::pin_in(PendingOnce { polled: 0, val }, b);
                cx.transfers += 1;
                let first = p.as_mut().poll(&mut c);
                let second = p.as_mut().poll(&mut c);
                if first != Poll::Pending || second != Poll::Ready(val) {
                    cx.v(format!("pinned future polled to {:?} then {:?}; expected Pending then Ready({val})", first, second));
                }
                let mut q = BBox::new_in(PendingOnce { polled: 0, val }, b);
                let first = Pin::new(&mut q).poll(&mut c);
                let second = Pin::new(&mut q).poll(&mut c);
                if first != Poll::Pending || second != Poll::Ready(val) {
                    cx.v("Box<impl Future + Unpin> does not poll like the future it holds".into());
                }
            }
            9 => {
                let s: BBox<[El<0>]> = Default::default();
                let t: BBox<str> = Default::default();
                if !s.is_empty() || !t.is_empty() || &*t != "" {
                    cx.v("Default boxed slice/str is not empty".into());
                }
                drop(s);
                drop(t);
                cx.ledger("default boxes");
            }
            10 => {
                let s: BBox<Zs<0>> = BBox::new_in(Zs::new(), b);
                let t: Box<Zs<1>> = Box::new(Zs::new());
                let p = &*s as *const Zs<0> as usize;
                if p == 0 {
                    cx.v("Box of a zero-sized value holds a null pointer".into());
                }
                cx.transfers += 1;
                match g(1) % 3 {
                    0 => {
                        drop(s);
                        drop(t);
                    }
                    1 => {
                        let x = BBox::into_inner(s);
                        let y = *t;
                        drop(x);
                        drop(y);
                    }
                    _ => {
                        let _ = BBox::leak(s);
                        let _ = Box::leak(t);
                    }
                }
                let (zm, zd) = z_counts(0);
                let (tm, td) = z_counts(1);
                if (zm, zd) != (tm, td) {
                    cx.v(format!("zero-sized value: created/dropped {:?}, std {:?}", (zm, zd), (tm, td)));
                }
            }
            _ => {
                use std::borrow::{Borrow, BorrowMut};
                let val = g(1) as u64;
                let mut s = BBox::new_in(val, b);
                let r1: &u64 = s.borrow();
                let a = *r1;
                let r2: &u64 = s.as_ref();
                let c = *r2;
                {
                    let m: &mut u64 = s.borrow_mut();
                    *m += 1;
                }
                {
                    let m: &mut u64 = s.as_mut();
                    *m += 1;
                }
                *s += 1;
                if (a, c, *s) != (val, val, val + 3) {
                    cx.v(format!("Borrow/AsRef/AsMut/DerefMut see {:?}, expected {:?}", (a, c, *s), (val, val, val + 3)));
                }
            }
        }
    }));
    if let Err(e) = r {
        cx.v(format!("{}: panicked: {}", KIND_NAMES[kind as usize], panic_msg(e)));
    }
    cx.ledger("end of scenario");
    let us = undropped_payloads(0);
    let ut = undropped_payloads(1);
    if us != ut {
        cx.v(format!("values never dropped: payloads {:?}, std {:?}", us, ut));
    }
    {
        let _g = enter_arena(1);
        drop(bump);
    }
    // the arena's own drop must not have run any destructor
    let (a, _) = dropped_since(0, cx.pos[0]);
    if !a.is_empty() {
        cx.v(format!("dropping the arena ran destructors of payloads {:?}", a));
    }
    ledger::end_case();
    let nt = cx.transfers >= 2 || cx.failed_conv > 0;
    (cx.viol, nt, vec![1, cx.transfers, cx.failed_conv, kind as u32])
}

pub struct C17Engine;
impl Engine for C17Engine {
    fn prop(&self) -> &'static str {
        "C17"
    }
    fn fuzz(&self) -> Option<FuzzSpec> {
        Some(FuzzSpec { target: "fz_misc", max_len: 64, target_prefix: vec![2], engine_prefix: vec![] })
    }
    fn strategy(&self, _tier: Tier) -> BoxedStrategy<Vec<u8>> {
        (0u8..NKINDS, proptest::collection::vec(any::<u8>(), 24)).prop_map(|(k, mut v)| {
            v.insert(0, k);
            v
        }).boxed()
    }
    fn run(&self, bytes: &[u8]) -> CaseOut {
        let (viol, nt, stats) = run_box_case(bytes);
        CaseOut { viol, nontrivial: nt, hash: fnv(bytes), stats, ..Default::default() }
    }
    fn describe(&self, bytes: &[u8]) -> Value {
        json!({"scenario": KIND_NAMES[(bytes.first().cloned().unwrap_or(0) % NKINDS) as usize], "parameter_bytes": hex(bytes.get(1..).unwrap_or(&[]))})
    }
    fn stat_names(&self) -> Vec<&'static str> {
        vec!["scenarios", "ownership_transfers", "failed_downcasts_or_conversions", "kind_sum"]
    }
    fn cases(&self, tier: Tier) -> u32 {
        match tier {
            Tier::Quick => 10000,
            Tier::Thorough => 100000,
        }
    }
    fn rule(&self) -> String {
        "cases are proptest-generated scenarios over 12 families (ownership chains new_in/deref_mut/into_raw<->from_raw/leak/into_inner/Pin, array<->slice From/TryFrom, Vec->boxed slice, dyn Any (+Send) downcast to matching and non-matching types, Display/Debug/Pointer with 10-13 format specs, Eq/Ord/Hash, Hasher, Iterator (sized and dyn), Future/pin_in, Default, zero-sized values, Borrow/AsRef/AsMut) run against a std Box twin with a two-sided drop ledger; chunk_capacity/allocated_bytes must not change when a Box is let go and dropping the arena must run no destructor. non-trivial = a chain with >= 2 ownership transfers or a failed downcast/TryFrom; distinct = distinct scenario bytes".into()
    }
}
