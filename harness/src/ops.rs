//! Arena interpreter operations, part 1: decoding, layout-level and Allocator-trait operations.

use crate::ledger::{self, enter_arena, EvKind, Placement, Plan};
use crate::sim::*;
use crate::types::*;
use allocator_api2::alloc::Allocator;
use bumpalo::Bump;
use std::alloc::Layout;
use std::ptr::NonNull;

pub const NOPS: u8 = 16;
pub const OP_NAMES: [&str; NOPS as usize] = [
    "alloc_layout", "alloc_typed", "try_with", "slice", "slice_try_fill", "str", "allocate", "deallocate", "grow",
    "shrink", "reset", "set_limit", "set_plan", "probe_capacity", "hand_over", "reset_refill",
];

const BOUNDARY: [usize; 32] = [
    447, 448, 449, 463, 464, 465, 495, 496, 497, 511, 512, 513, 959, 960, 961, 1023, 1024, 1025, 1983, 1984, 1985, 4031,
    4032, 4033, 4047, 4048, 4049, 4095, 4096, 4097, 8143, 8144,
];
const HUGE: [usize; 8] = [
    1 << 20,
    3 << 20,
    (1 << 30) + 1,
    (isize::MAX as usize) / 2,
    isize::MAX as usize - 4096,
    isize::MAX as usize - 63,
    isize::MAX as usize - 15,
    isize::MAX as usize,
];

pub fn map_size(b: u8, c: u8) -> usize {
    match b {
        0..=127 => b as usize,
        128..=191 => 128 + (b as usize - 128) * 8 + (c as usize & 7),
        192..=223 => BOUNDARY[(b - 192) as usize],
        224..=247 => (b as usize - 223) * (c as usize + 1) * 64,
        _ => HUGE[(b - 248) as usize],
    }
}

pub fn map_align(x: u8) -> usize {
    let x = x & 15;
    match x {
        0..=12 => 1usize << x,
        13 => 1,
        14 => 8,
        _ => 16,
    }
}

#[derive(Clone, Copy)]
pub struct Pre {
    pub fits: bool,
    pub ab: usize,
    pub abm: usize,
    pub cap: usize,
    pub nchunks: usize,
    pub fallible: bool,
}

impl<const M: usize> Sim<M> {
    pub fn pre(&mut self, layout: Option<Layout>, fallible: bool) -> Pre {
        let fits = layout.map_or(false, |l| self.provably_fits(l));
        if fits {
            self.st(St::FitChecked);
        }
        Pre { fits, ab: self.last_ab, abm: self.last_abm, cap: self.last_cap, nchunks: self.chunks.len(), fallible }
    }

    pub fn fallible(&self, bit: bool) -> bool {
        match self.opts.force_fallible {
            Some(f) => f,
            None => bit ^ self.opts.flip_fallible,
        }
    }

    /// Live ledger bytes are bounded so that the sandbox survives long histories.
    pub fn too_big(&self, size: usize) -> bool {
        size <= ledger::HARD_CAP && (size > (4 << 20) || (size > (1 << 20) + 4096 && self.held_total() > (8 << 20)) || (size > 4096 && self.held_total() > (32 << 20)))
    }

    /// Classify the result of an allocation-like call, absorb its ledger events.
    /// `res`: Err = panic message, Ok(None) = the method returned Err, Ok(Some(x)) = success.
    pub fn post_call<X>(&mut self, kind: OpKind, what: &str, res: Result<Option<X>, String>, pre: Pre) -> (u8, Option<X>) {
        self.absorb_events(kind);
        let acquired = self.step_events.iter().any(|e| e.0 == EvKind::Alloc as u8);
        let refused = self.step_events.iter().any(|e| e.0 == EvKind::Refuse as u8);
        let (outcome, val) = match res {
            Ok(Some(x)) => {
                self.st(St::AllocOk);
                (OUT_OK, Some(x))
            }
            Ok(None) => {
                self.st(St::AllocErr);
                self.had_err = true;
                (OUT_ERR, None)
            }
            Err(msg) => {
                if pre.fallible {
                    self.st(St::TryPanic);
                    self.v("C09", format!("{what}: a fallible method panicked: {msg}"));
                } else {
                    self.st(St::AllocPanic);
                    if !(msg.contains("out of memory") || msg.contains("capacity overflow") || msg.contains("overflow") || msg.contains("encountered allocation error")) {
                        self.v("C09", format!("{what}: infallible method panicked with an unexpected message: {msg}"));
                    }
                }
                (OUT_PANIC, None)
            }
        };
        if outcome != OUT_OK {
            if refused {
                self.st(St::ErrAfterFault);
            }
            if self.limit.is_some() {
                self.st(St::LimitedFail);
            }
            if acquired {
                self.v("C09", format!("{what}: the request failed but the arena obtained memory from the global allocator while failing"));
            }
        }
        if pre.fits {
            if outcome != OUT_OK {
                let m = format!("{what}: request provably fits the current chunk (chunk_capacity {}) but failed", pre.cap);
                if self.limit.is_some() {
                    self.v("C07", m.clone());
                }
                if self.had_err {
                    self.v("C09", m.clone());
                }
                self.v("C18", m);
            } else if acquired || refused {
                let m = format!("{what}: request provably fits the current chunk (chunk_capacity {}) but the arena asked the global allocator for memory", pre.cap);
                if self.limit.is_some() {
                    self.v("C07", m.clone());
                }
                self.v("C18", m);
            }
        }
        if self.after_reset && outcome == OUT_OK {
            self.st(St::Refill);
            self.after_reset = false;
        }
        (outcome, val)
    }

    /// Observe, run the "failure changes nothing" oracle and record the trace item.
    pub fn finish_step(&mut self, kind: OpKind, what: &str, pre: Pre, outcome: u8, ptr: usize, len: usize) {
        self.observe(kind);
        if outcome == OUT_ERR || outcome == OUT_PANIC {
            if (self.last_ab, self.last_abm, self.last_cap, self.chunks.len()) != (pre.ab, pre.abm, pre.cap, pre.nchunks) {
                let m = format!(
                    "{what}: failed, yet the arena changed: allocated_bytes {}->{}, incl. metadata {}->{}, chunk_capacity {}->{}, chunks {}->{}",
                    pre.ab, self.last_ab, pre.abm, self.last_abm, pre.cap, self.last_cap, pre.nchunks, self.chunks.len()
                );
                self.v("C09", m);
            }
        }
        self.push_trace(outcome, ptr, len);
    }

    /// register a freshly returned raw block: C01/C04 checks, then write the pattern
    pub fn register(&mut self, what: &str, p: usize, size: usize, align: usize, freeable: bool, exclude: Option<u32>) -> u32 {
        let id = self.fresh_id();
        if M > 1 && align != M && size > 0 {
            // statistics for the C04 non-trivial rule are taken by the caller
        }
        if self.check_new_block(what, p, size, align, exclude) {
            unsafe { write_pat(id, p as *mut u8, size) };
            self.add_block(id, p, size, align, freeable);
        }
        id
    }

    pub fn note_align_stats(&mut self, size: usize, align: usize) {
        if self.chunks.is_empty() && size == 0 {
            self.st(St::ZstOnChunkless);
        }
        if align != M && self.last_cap % 64 != 0 {
            self.st(St::OddResidueAlign);
        }
        if size > (1 << 30) {
            self.st(St::Huge);
        }
    }

    // -----------------------------------------------------------------------------------------

    pub fn step(&mut self, op: Op) {
        if self.bump.is_none() || self.dropped {
            return;
        }
        self.opi += 1;
        self.st(St::Ops);
        let code = op.code % NOPS;
        match code {
            0 => self.op_alloc_layout(op),
            1 => self.op_typed(op),
            2 => self.op_try_with(op),
            3 => self.op_slice(op),
            4 => self.op_slice_try_fill(op),
            5 => self.op_str(op),
            6 => self.op_allocate(op),
            7 => self.op_deallocate(op),
            8 => self.op_grow(op),
            9 => self.op_shrink(op),
            10 => self.op_reset(op, false),
            11 => self.op_set_limit(op),
            12 => self.op_set_plan(op),
            13 => self.op_probe(op),
            14 => self.op_hand_over(op),
            _ => self.op_reset(op, true),
        }
    }

    pub fn layout_for(&self, align_sel: u8, b: u8, c: u8) -> Option<Layout> {
        let (size, align) = match self.opts.uniform {
            Some(u) => ((map_size(b, c) % 4096) / u * u, u),
            None => (map_size(b, c), map_align(align_sel)),
        };
        if self.too_big(size) {
            return None;
        }
        Layout::from_size_align(size, align).ok()
    }

    fn op_alloc_layout(&mut self, op: Op) {
        let fallible = self.fallible(op.a & 1 == 1);
        let Some(l) = self.layout_for(op.a >> 1, op.b, op.c) else {
            self.push_trace(OUT_SKIP, 0, 0);
            return;
        };
        self.note_align_stats(l.size(), l.align());
        let pre = self.pre(Some(l), fallible);
        let what = if fallible { "try_alloc_layout" } else { "alloc_layout" };
        let res = if fallible {
            self.call(|b| b.try_alloc_layout(l).ok().map(|p| p.as_ptr() as usize))
        } else {
            self.call(|b| Some(b.alloc_layout(l).as_ptr() as usize))
        };
        let (outcome, p) = self.post_call(OpKind::Alloc, what, res, pre);
        if let Some(p) = p {
            self.register(what, p, l.size(), l.align(), true, None);
        }
        self.finish_step(OpKind::Alloc, what, pre, outcome, p.unwrap_or(0), l.size());
    }

    fn op_allocate(&mut self, op: Op) {
        let zeroed = op.a & 0x20 != 0;
        let Some(l) = self.layout_for(op.a >> 1, op.b, op.c) else {
            self.push_trace(OUT_SKIP, 0, 0);
            return;
        };
        self.note_align_stats(l.size(), l.align());
        let pre = self.pre(Some(l), true);
        let what = if zeroed { "Allocator::allocate_zeroed" } else { "Allocator::allocate" };
        let res = self.call(|b| {
            let r = if zeroed { b.allocate_zeroed(l) } else { b.allocate(l) };
            r.ok().map(|p| (p.as_ptr() as *mut u8 as usize, p.len()))
        });
        let (outcome, r) = self.post_call(OpKind::Alloc, what, res, pre);
        let mut ptr = 0;
        if let Some((p, len)) = r {
            ptr = p;
            if len < l.size() {
                self.v("C12", format!("{what}: returned slice of {len} bytes for a request of {}", l.size()));
            }
            let nv = self.viol.len();
            if zeroed && l.size() > 0 && self.locate(p, l.size()).is_some() {
                let s = unsafe { std::slice::from_raw_parts(p as *const u8, l.size()) };
                if let Some(j) = s.iter().position(|&x| x != 0) {
                    self.v("C12", format!("{what}: byte {j} of the zeroed block is {:#x}", s[j]));
                }
            }
            let id = self.register(what, p, l.size(), l.align(), true, None);
            self.check_excess(what, p, l.size(), len, Some(id));
            self.dup_as_c12(nv);
        }
        self.finish_step(OpKind::Alloc, what, pre, outcome, ptr, l.size());
    }

    /// violations found by the generic block checks inside an Allocator-trait operation also count for C12
    pub fn dup_as_c12(&mut self, from: usize) {
        let extra: Vec<Violation> = self.viol[from..]
            .iter()
            .filter(|v| v.prop == "C01" || v.prop == "C04" || v.prop == "C02")
            .map(|v| Violation { prop: "C12", op: v.op, msg: v.msg.clone() })
            .collect();
        self.viol.extend(extra);
    }

    fn pick_freeable(&self, sel: u8) -> Option<usize> {
        let idx: Vec<usize> = self.blocks.iter().enumerate().filter(|(_, b)| b.freeable).map(|(i, _)| i).collect();
        if idx.is_empty() {
            None
        } else {
            Some(idx[(sel as usize * idx.len()) >> 8])
        }
    }

    fn op_deallocate(&mut self, op: Op) {
        if self.opts.uniform.is_some() {
            self.push_trace(OUT_SKIP, 0, 0);
            return;
        }
        // newest block with high probability (that is the case in which memory is actually reclaimed)
        let i = if op.b & 1 == 0 { self.blocks.iter().rposition(|b| b.freeable) } else { self.pick_freeable(op.a) };
        let Some(i) = i else {
            self.push_trace(OUT_SKIP, 0, 0);
            return;
        };
        let blk = self.blocks.remove(i);
        let l = Layout::from_size_align(blk.size, blk.align).unwrap();
        let pre = self.pre(None, false);
        let res = self.call(|b| unsafe { b.deallocate(NonNull::new_unchecked(blk.ptr as *mut u8), l) });
        self.absorb_events(OpKind::Dealloc);
        self.st(St::Dealloc);
        if let Err(m) = res {
            self.v("C12", format!("deallocate panicked: {m}"));
        }
        self.observe(OpKind::Dealloc);
        if self.last_cap > pre.cap {
            self.st(St::DeallocLast);
        }
        if self.last_cap < pre.cap {
            self.v("C12", format!("deallocate reduced chunk_capacity from {} to {}", pre.cap, self.last_cap));
        }
        self.push_trace(OUT_OK, 0, 0);
    }

    fn op_grow(&mut self, op: Op) {
        if self.opts.uniform.is_some() {
            self.push_trace(OUT_SKIP, 0, 0);
            return;
        }
        let zeroed = op.a & 0x20 != 0;
        let i = if op.a & 0x40 == 0 { self.blocks.iter().rposition(|b| b.freeable) } else { self.pick_freeable(op.a.wrapping_mul(37)) };
        let Some(i) = i else {
            self.push_trace(OUT_SKIP, 0, 0);
            return;
        };
        let old = self.blocks[i].clone();
        let new_align = if op.a & 0x10 != 0 { map_align(op.a) } else { old.align };
        let delta = map_size(op.b, op.c);
        let Some(new_size) = old.size.checked_add(delta) else {
            self.push_trace(OUT_SKIP, 0, 0);
            return;
        };
        if self.too_big(new_size) {
            self.push_trace(OUT_SKIP, 0, 0);
            return;
        }
        let Ok(new_l) = Layout::from_size_align(new_size, new_align) else {
            self.push_trace(OUT_SKIP, 0, 0);
            return;
        };
        let old_l = Layout::from_size_align(old.size, old.align).unwrap();
        if new_align != old.align {
            self.st(St::GrowDiffAlign);
        }
        // if a fresh block of the new layout provably fits the current chunk, growing cannot need the global allocator
        let pre = self.pre(Some(new_l), true);
        let what = if zeroed { "Allocator::grow_zeroed" } else { "Allocator::grow" };
        let res = self.call(|b| unsafe {
            let p = NonNull::new_unchecked(old.ptr as *mut u8);
            let r = if zeroed { b.grow_zeroed(p, old_l, new_l) } else { b.grow(p, old_l, new_l) };
            r.ok().map(|p| (p.as_ptr() as *mut u8 as usize, p.len()))
        });
        let (outcome, r) = self.post_call(OpKind::Grow, what, res, pre);
        let mut ptr = 0;
        if let Some((p, len)) = r {
            ptr = p;
            let nv = self.viol.len();
            if len < new_size {
                self.v("C12", format!("{what}: returned slice of {len} bytes for new size {new_size}"));
            }
            self.blocks.remove(i);
            let what2 = format!("{what}(old size {}, align {} -> new size {new_size}, align {new_align})", old.size, old.align);
            if self.check_new_block(&what2, p, new_size, new_align, None) {
                // prefix preserved?
                if let Some(j) = unsafe { check_pat(old.id, p as *const u8, old.size, true) } {
                    self.v("C02", format!("{what2}: byte {j} of the preserved prefix differs after the grow"));
                }
                if zeroed {
                    let s = unsafe { std::slice::from_raw_parts((p + old.size) as *const u8, new_size - old.size) };
                    if let Some(j) = s.iter().position(|&x| x != 0) {
                        self.v("C12", format!("{what2}: byte {} of the added tail is {:#x}, not zero", old.size + j, s[j]));
                    }
                }
                let id = self.fresh_id();
                unsafe { write_pat(id, p as *mut u8, new_size) };
                self.add_block(id, p, new_size, new_align, true);
                self.check_excess(&what2, p, new_size, len, Some(id));
            }
            if p <= old.ptr && old.ptr < p + new_size.max(1) {
                self.st(St::GrowInPlace);
            } else {
                self.st(St::GrowMoved);
            }
            self.dup_as_c12(nv);
        } else {
            self.st(St::GrowFail);
        }
        self.finish_step(OpKind::Grow, what, pre, outcome, ptr, new_size);
    }

    fn op_shrink(&mut self, op: Op) {
        if self.opts.uniform.is_some() {
            self.push_trace(OUT_SKIP, 0, 0);
            return;
        }
        let i = if op.a & 0x40 == 0 { self.blocks.iter().rposition(|b| b.freeable) } else { self.pick_freeable(op.a.wrapping_mul(37)) };
        let Some(i) = i else {
            self.push_trace(OUT_SKIP, 0, 0);
            return;
        };
        let old = self.blocks[i].clone();
        let new_align = if op.a & 0x10 != 0 { map_align(op.a) } else { old.align };
        let new_size = match op.c & 3 {
            0 => (old.size * op.b as usize) >> 8,
            1 => old.size / 2,
            2 => old.size.saturating_sub(op.b as usize & 7),
            _ => (old.size / 2).saturating_sub(op.b as usize & 3).min(old.size),
        };
        let Ok(new_l) = Layout::from_size_align(new_size, new_align) else {
            self.push_trace(OUT_SKIP, 0, 0);
            return;
        };
        let old_l = Layout::from_size_align(old.size, old.align).unwrap();
        if new_align != old.align {
            self.st(St::GrowDiffAlign);
        }
        let pre = self.pre(Some(new_l), true);
        let what = "Allocator::shrink";
        let res = self.call(|b| unsafe { b.shrink(NonNull::new_unchecked(old.ptr as *mut u8), old_l, new_l).ok().map(|p| (p.as_ptr() as *mut u8 as usize, p.len())) });
        let (outcome, r) = self.post_call(OpKind::Shrink, what, res, pre);
        let mut ptr = 0;
        if let Some((p, len)) = r {
            ptr = p;
            let nv = self.viol.len();
            if len < new_size {
                self.v("C12", format!("{what}: returned slice of {len} bytes for new size {new_size}"));
            }
            self.blocks.remove(i);
            let what2 = format!("{what}(old size {}, align {} -> new size {new_size}, align {new_align})", old.size, old.align);
            if self.check_new_block(&what2, p, new_size, new_align, None) {
                if let Some(j) = unsafe { check_pat(old.id, p as *const u8, new_size, true) } {
                    self.v("C02", format!("{what2}: byte {j} of the preserved prefix differs after the shrink"));
                }
                let id = self.fresh_id();
                unsafe { write_pat(id, p as *mut u8, new_size) };
                self.add_block(id, p, new_size, new_align, true);
                self.check_excess(&what2, p, new_size, len, Some(id));
            }
            if p == old.ptr {
                self.st(St::ShrinkNoop);
            } else if p > old.ptr && p < old.ptr + old.size.max(1) {
                self.st(St::ShrinkInPlace);
            } else {
                self.st(St::ShrinkMoved);
            }
            self.dup_as_c12(nv);
        } else {
            self.st(St::GrowFail);
        }
        self.finish_step(OpKind::Shrink, what, pre, outcome, ptr, new_size);
    }

    // -----------------------------------------------------------------------------------------

    fn op_set_limit(&mut self, op: Op) {
        let held = self.held_usable();
        let lim = match op.a % 20 {
            0 => None,
            1 => Some(0),
            2 => Some(1),
            3 => Some(63),
            4 => Some(64),
            5 => Some(447),
            6 => Some(448),
            7 => Some(449),
            8 => Some(511),
            9 => Some(512),
            10 => Some(held.saturating_sub(1)),
            11 => Some(held),
            12 => Some(held + 1),
            13 => Some(2 * held),
            14 => Some(held + 448),
            15 => Some(held + 959),
            16 => Some(held + 2 * self.last_chunk_size),
            17 => Some(usize::MAX),
            _ => Some(map_size(op.b, op.c)),
        };
        let lim = match self.opts.limit_mode {
            1 => {
                // the limit feature is never touched
                self.step_events.clear();
                self.push_trace(OUT_OK, 0, 0);
                return;
            }
            2 => {
                // set and immediately remove: must be indistinguishable from never setting it
                let _ = self.call(|b| b.set_allocation_limit(lim));
                None
            }
            _ => lim,
        };
        let _ = self.call(|b| b.set_allocation_limit(lim));
        self.limit = lim;
        self.limit_predates_reset = false;
        self.st(St::LimitSetOps);
        self.absorb_events(OpKind::Limit);
        self.observe(OpKind::Limit);
        self.push_trace(OUT_OK, 0, 0);
    }

    fn op_set_plan(&mut self, op: Op) {
        let k = ledger::req_count(self.id);
        let plan = match op.a % 8 {
            0 => Plan::None,
            1 => Plan::FailKth(k + (op.b % 4) as u32),
            2 => Plan::FailFrom(k + (op.b % 4) as u32),
            3 => Plan::FailAtLeast(map_size(op.b, op.c).max(1)),
            4 => Plan::Window(k, k + 1 + (op.b % 8) as u32),
            5 => Plan::FailAll,
            6 => Plan::Window(k + (op.b % 3) as u32, k + (op.b % 3) as u32 + 1 + (op.c % 40) as u32),
            _ => Plan::None,
        };
        ledger::set_plan(self.id, plan);
        self.push_trace(OUT_OK, 0, 0);
    }

    /// chunk_capacity() never overstates: a request of exactly that many bytes is served in place.
    fn op_probe(&mut self, _op: Op) {
        if self.opts.uniform.is_some() {
            self.push_trace(OUT_SKIP, 0, 0);
            return;
        }
        let cap = self.last_cap;
        let Ok(l) = Layout::from_size_align(cap, 1) else {
            return;
        };
        self.st(St::Probe);
        let pre = self.pre(Some(l), true);
        let res = self.call(|b| b.try_alloc_layout(l).ok().map(|p| p.as_ptr() as usize));
        let (outcome, p) = self.post_call(OpKind::Probe, "try_alloc_layout(chunk_capacity(), 1)", res, pre);
        if let Some(p) = p {
            let nv = self.viol.len();
            self.check_new_block("capacity probe", p, cap, 1, None);
            let _ = nv;
            let _ = self.call(|b| unsafe { b.deallocate(NonNull::new_unchecked(p as *mut u8), l) });
            self.absorb_events(OpKind::Probe);
        }
        self.observe(OpKind::Probe);
        if outcome == OUT_OK && self.last_cap != cap {
            self.v("C18", format!("after allocating and releasing chunk_capacity() = {cap} bytes the capacity is {}", self.last_cap));
        }
        self.push_trace(outcome, 0, 0);
    }

    fn op_hand_over(&mut self, op: Op) {
        if self.opts.uniform.is_some() {
            self.push_trace(OUT_SKIP, 0, 0);
            return;
        }
        // every reference into the arena has to be gone before it can be moved
        self.blocks.clear();
        let n = (op.a & 3) as usize;
        let drop_there = op.a & 0x80 != 0;
        let size = map_size(op.b, op.c).min(70_000);
        let id = self.id;
        let bump = self.bump.take().unwrap();
        self.st(St::HandOver);
        let h = std::thread::spawn(move || {
            let mut ptrs = Vec::with_capacity(4);
            let g = enter_arena(id);
            let r = std::panic::catch_unwind(std::panic::AssertUnwindSafe(|| {
                for _ in 0..n {
                    if let Ok(p) = bump.try_alloc_layout(Layout::from_size_align(size, 8).unwrap()) {
                        let _u = ledger::enter_user();
                        ptrs.push(p.as_ptr() as usize);
                    }
                }
            }));
            let back = if drop_there {
                drop(bump);
                None
            } else {
                Some(bump)
            };
            drop(g);
            (ptrs, back, r.is_err())
        });
        let (ptrs, back, panicked) = h.join().expect("hand-over thread");
        if panicked {
            self.v("C09", "try_alloc_layout panicked on the receiving thread".to_string());
        }
        self.bump = back;
        if self.bump.is_none() {
            self.dropped = true;
            self.absorb_events(OpKind::HandOverDrop);
            if !self.chunks.is_empty() {
                let n = self.chunks.len();
                self.v("C03", format!("arena dropped on another thread but {n} blocks were not returned to the global allocator"));
            }
            self.push_trace(OUT_OK, 0, 0);
            return;
        }
        self.absorb_events(OpKind::HandOver);
        for p in ptrs {
            self.register("try_alloc_layout on receiving thread", p, size, 8, true, None);
        }
        self.observe(OpKind::HandOver);
        self.push_trace(OUT_OK, 0, 0);
    }

    fn op_reset(&mut self, op: Op, refill: bool) {
        let n_before = self.chunks.len();
        let newest_size = self.chunks.last().map(|c| c.size).unwrap_or(0);
        let partial = n_before > 0 && self.last_cap < newest_size - self.k_meta;
        let pre = self.pre(None, false);
        let res = self.call_mut(|b| b.reset());
        self.absorb_events(OpKind::Reset);
        self.st(St::Reset);
        if n_before >= 2 {
            self.st(St::ResetMulti);
        }
        if partial {
            self.st(St::ResetPartial);
        }
        if n_before == 0 {
            self.st(St::ResetEmpty);
        }
        if let Err(m) = res {
            self.v("C06", format!("reset panicked: {m}"));
        }
        self.blocks.clear();
        if n_before == 0 && !self.step_events.is_empty() {
            self.v("C06", "reset of an arena that never obtained memory touched the global allocator".to_string());
        }
        if self.chunks.len() > 1 {
            let n = self.chunks.len();
            self.v("C06", format!("after reset the arena still holds {n} blocks from the global allocator (had {n_before})"));
            self.v("C03", format!("reset gave back only {} of the {} blocks it had to (all but the one kept)", n_before - n, n_before - 1));
        }
        if n_before >= 1 && self.chunks.is_empty() {
            // allowed by the statement ("at most one"), nothing to check
        }
        self.observe(OpKind::Reset);
        // nothing allocated
        let sum: usize = self.call(|b| unsafe { b.iter_allocated_chunks_raw().map(|(_, l)| l).sum() }).unwrap_or(0);
        if sum != 0 {
            self.v("C06", format!("after reset chunk iteration still shows {sum} allocated bytes"));
        }
        if let Some(c) = self.chunks.last().copied() {
            if self.chunks.len() == 1 && self.last_cap != c.size - self.k_meta {
                self.v("C06", format!("after reset chunk_capacity() is {} but the retained block of {} bytes has {} usable bytes", self.last_cap, c.size, c.size - self.k_meta));
            }
        }
        if n_before == 0 && (self.last_ab, self.last_abm, self.last_cap) != (pre.ab, pre.abm, pre.cap) {
            self.v("C06", "reset of an arena that never obtained memory changed its observable state".to_string());
        }
        self.after_reset = true;
        self.limit_predates_reset = self.limit.is_some();
        self.push_trace(OUT_OK, 0, 0);
        if refill && self.chunks.len() == 1 {
            // hand out the full usable capacity again, in pieces, without touching the global allocator
            let cap = self.last_cap;
            let mut piece = ((op.b as usize % 64) + 1) * M;
            while cap / piece > 48 {
                piece *= 2;
            }
            let mut left = cap;
            while left > 0 {
                let sz = piece.min(left);
                let l = Layout::from_size_align(sz, if op.c & 1 == 0 { 1 } else { M }).unwrap();
                let pre = self.pre(Some(l), true);
                let res = self.call(|b| b.try_alloc_layout(l).ok().map(|p| p.as_ptr() as usize));
                let (outcome, p) = self.post_call(OpKind::Alloc, "refill after reset", res, pre);
                if outcome != OUT_OK || !self.step_events.is_empty() {
                    self.v("C06", format!("after reset only {} of the {cap} usable bytes could be handed out without asking the global allocator", cap - left));
                    if let Some(p) = p {
                        self.register("refill after reset", p, sz, l.align(), true, None);
                    }
                    break;
                }
                self.register("refill after reset", p.unwrap(), sz, l.align(), true, None);
                left -= sz;
            }
            self.observe(OpKind::Alloc);
            self.push_trace(OUT_OK, 0, 0);
        }
    }

    // -----------------------------------------------------------------------------------------

    /// Drop the arena; everything it holds must be returned exactly once.
    pub fn finish(&mut self) {
        self.blocks.clear();
        if let Some(b) = self.bump.take() {
            self.opi += 1;
            let r = {
                let _g = enter_arena(self.id);
                std::panic::catch_unwind(std::panic::AssertUnwindSafe(move || drop(b)))
            };
            if r.is_err() {
                self.v("C03", "dropping the arena panicked".to_string());
            }
            self.absorb_events(OpKind::Drop);
            if !self.chunks.is_empty() {
                let n = self.chunks.len();
                let bytes = self.held_total();
                self.v("C03", format!("arena dropped but {n} blocks ({bytes} bytes) were not returned to the global allocator"));
                self.chunks.clear();
            }
            if let Some((_, msg)) = ledger::check_integrity(true) {
                let prop = if msg.starts_with("write into a chunk already") { "C03" } else { "C01" };
                self.v(prop, msg);
            }
            self.dropped = true;
        }
    }
}

#[derive(Clone, Copy, Debug)]
pub struct Header {
    pub m: usize,
    pub ctor: u8,
    pub cap: usize,
    pub placement: Placement,
    pub plan: Plan,
    pub limit_sel: u8,
}

pub fn decode_header(h: &[u8; 8]) -> Header {
    let m = [1usize, 2, 4, 8, 16][(h[0] % 5) as usize];
    let cap = match h[1] % 4 {
        0 => 0,
        _ => map_size(h[2], h[3]),
    };
    let placement = match h[4] % 3 {
        0 => Placement::Max,
        1 => Placement::Min,
        _ => Placement::Mix,
    };
    let plan = match h[5] % 16 {
        0..=9 => Plan::None,
        10 => Plan::FailKth((h[6] % 6) as u32),
        11 => Plan::FailFrom((h[6] % 6) as u32),
        12 => Plan::FailAtLeast(map_size(h[6], h[7]).max(1)),
        13 => Plan::Window((h[6] % 4) as u32, (h[6] % 4) as u32 + 1 + (h[7] % 30) as u32),
        14 => Plan::FailAll,
        _ => Plan::FailKth(0),
    };
    Header { m, ctor: h[1], cap, placement, plan, limit_sel: h[7] }
}

impl<const M: usize> Sim<M> {
    /// Construct the arena as the header says. Returns false if construction failed (legitimately).
    pub fn construct(&mut self, hd: &Header) -> bool {
        ledger::set_placement(self.id, hd.placement);
        ledger::set_plan(self.id, hd.plan);
        let cap = if self.too_big(hd.cap) || (hd.cap > (4 << 20) && hd.cap <= ledger::HARD_CAP) { 4096 } else { hd.cap };
        let fallible = self.fallible(hd.ctor & 4 != 0);
        let variant = hd.ctor % 4; // 0: no capacity
        let id = self.id;
        let r = {
            let _g = enter_arena(id);
            let plain = hd.ctor & 8 != 0;
            std::panic::catch_unwind(|| -> Option<Bump<M>> {
                if M == 1 && plain {
                    // the constructors that only exist on the default Bump (MIN_ALIGN = 1)
                    let b1: Option<Bump<1>> = match (variant, fallible) {
                        (0, false) => Some(Bump::new()),
                        (0, true) => Bump::try_new().ok(),
                        (_, false) => Some(Bump::with_capacity(cap)),
                        (_, true) => Bump::try_with_capacity(cap).ok(),
                    };
                    return b1.map(|b| {
                        let any: Box<dyn std::any::Any> = {
                            let _u = ledger::enter_user();
                            Box::new(b)
                        };
                        let _u = ledger::enter_user();
                        *any.downcast::<Bump<M>>().expect("M == 1")
                    });
                }
                match (variant, fallible) {
                    (0, false) => Some(Bump::<M>::with_min_align()),
                    (0, true) => Some(Bump::<M>::default()),
                    (_, false) => Some(Bump::<M>::with_min_align_and_capacity(cap)),
                    (_, true) => Bump::<M>::try_with_min_align_and_capacity(cap).ok(),
                }
            })
        };
        self.opi += 1;
        let pre = Pre { fits: false, ab: 0, abm: 0, cap: 0, nchunks: 0, fallible: variant != 0 && fallible };
        let res: Result<Option<Bump<M>>, String> = r.map_err(panic_msg);
        let what = "constructor";
        let (outcome, b) = self.post_call(OpKind::Ctor, what, res, pre);
        self.bump = b;
        if self.bump.is_none() {
            // a failed constructor must leave nothing behind
            if !self.chunks.is_empty() {
                self.v("C03", "constructor failed but memory obtained from the global allocator was not returned".to_string());
            }
            self.push_trace(outcome, 0, 0);
            return false;
        }
        self.observe(OpKind::Ctor);
        if variant == 0 && !self.chunks.is_empty() {
            // not a property violation, but unexpected for the engine's statistics
        }
        if variant != 0 && self.last_cap < cap {
            self.v("C18", format!("arena built with capacity {cap} reports chunk_capacity() = {}", self.last_cap));
        }
        self.push_trace(outcome, 0, 0);
        true
    }
}
