//! C05 — borrow rules make misuse a compile error. Generated client programs, rustc as the oracle.

use crate::runner::*;
use proptest::prelude::*;
use proptest::strategy::BoxedStrategy;
use serde_json::{json, Value};
use std::path::PathBuf;
use std::process::{Command, Stdio};

pub const PRELUDE: &str = r#"#![allow(unused, dropping_references)]
use bumpalo::Bump;
use bumpalo::collections::{Vec as BVec, String as BString, CollectIn};
use bumpalo::boxed::Box as BBox;
fn consume<T>(_t: T) {}
fn use_ref<T: ?Sized>(_t: &T) {}
fn is_send<T: Send>() {}
fn is_sync<T: Sync>() {}
"#;

/// (declaration with the arena named `b`, is the default Bump<1>)
pub const ARENAS: [(&str, bool); 5] = [
    ("let mut b = Bump::new();", true),
    ("let mut b = Bump::with_capacity(64);", true),
    ("let mut b: Bump<8> = Bump::with_min_align();", false),
    ("let mut b = Bump::<16>::with_min_align_and_capacity(100);", false),
    ("let mut b: Bump = Default::default();", true),
];

pub struct Carrier {
    pub name: &'static str,
    /// statements creating `c` (borrowing from `b`)
    pub make: &'static str,
    /// a statement using `c` afterwards
    pub use_: &'static str,
    /// needs Bump<1> (collections / boxed / allocator-api2 vec)
    pub needs_default: bool,
    /// `c` holds `b` mutably borrowed (chunk iterators): allocation while it lives is a misuse
    pub exclusive: bool,
    /// the declaration form `let c;` + assignment is possible (single expression)
    pub expr: Option<&'static str>,
}

pub const CARRIERS: &[Carrier] = &[
    Carrier { name: "alloc", make: "let c = b.alloc(5u32);", use_: "*c += 1;", needs_default: false, exclusive: false, expr: Some("b.alloc(5u32)") },
    Carrier { name: "try_alloc", make: "let c = b.try_alloc(5u32).unwrap();", use_: "*c += 1;", needs_default: false, exclusive: false, expr: Some("b.try_alloc(5u32).unwrap()") },
    Carrier { name: "alloc_with", make: "let c = b.alloc_with(|| 5u32);", use_: "*c += 1;", needs_default: false, exclusive: false, expr: Some("b.alloc_with(|| 5u32)") },
    Carrier { name: "try_alloc_with", make: "let c = b.try_alloc_with(|| 5u32).unwrap();", use_: "*c += 1;", needs_default: false, exclusive: false, expr: Some("b.try_alloc_with(|| 5u32).unwrap()") },
    Carrier { name: "alloc_try_with", make: "let c = b.alloc_try_with(|| Ok::<u32, ()>(5)).unwrap();", use_: "*c += 1;", needs_default: false, exclusive: false, expr: Some("b.alloc_try_with(|| Ok::<u32, ()>(5)).unwrap()") },
    Carrier { name: "try_alloc_try_with", make: "let c = b.try_alloc_try_with(|| Ok::<u32, ()>(5)).unwrap();", use_: "*c += 1;", needs_default: false, exclusive: false, expr: Some("b.try_alloc_try_with(|| Ok::<u32, ()>(5)).unwrap()") },
    Carrier { name: "alloc_slice_copy", make: "let c = b.alloc_slice_copy(&[1u8, 2, 3]);", use_: "c[0] += 1;", needs_default: false, exclusive: false, expr: Some("b.alloc_slice_copy(&[1u8, 2, 3])") },
    Carrier { name: "try_alloc_slice_copy", make: "let c = b.try_alloc_slice_copy(&[1u8, 2, 3]).unwrap();", use_: "c[0] += 1;", needs_default: false, exclusive: false, expr: Some("b.try_alloc_slice_copy(&[1u8, 2, 3]).unwrap()") },
    Carrier { name: "alloc_slice_clone", make: "let c = b.alloc_slice_clone(&[String::new()]);", use_: "c[0].push('x');", needs_default: false, exclusive: false, expr: Some("b.alloc_slice_clone(&[String::new()])") },
    Carrier { name: "try_alloc_slice_clone", make: "let c = b.try_alloc_slice_clone(&[1u64]).unwrap();", use_: "c[0] += 1;", needs_default: false, exclusive: false, expr: Some("b.try_alloc_slice_clone(&[1u64]).unwrap()") },
    Carrier { name: "alloc_str", make: "let c = b.alloc_str(\"hello\");", use_: "c.make_ascii_uppercase();", needs_default: false, exclusive: false, expr: Some("b.alloc_str(\"hello\")") },
    Carrier { name: "try_alloc_str", make: "let c = b.try_alloc_str(\"hello\").unwrap();", use_: "c.make_ascii_uppercase();", needs_default: false, exclusive: false, expr: Some("b.try_alloc_str(\"hello\").unwrap()") },
    Carrier { name: "alloc_slice_fill_with", make: "let c = b.alloc_slice_fill_with(3, |i| i);", use_: "c[0] += 1;", needs_default: false, exclusive: false, expr: Some("b.alloc_slice_fill_with(3, |i| i)") },
    Carrier { name: "try_alloc_slice_fill_with", make: "let c = b.try_alloc_slice_fill_with(3, |i| i).unwrap();", use_: "c[0] += 1;", needs_default: false, exclusive: false, expr: Some("b.try_alloc_slice_fill_with(3, |i| i).unwrap()") },
    Carrier { name: "alloc_slice_try_fill_with", make: "let c = b.alloc_slice_try_fill_with(3, |i| Ok::<usize, ()>(i)).unwrap();", use_: "c[0] += 1;", needs_default: false, exclusive: false, expr: Some("b.alloc_slice_try_fill_with(3, |i| Ok::<usize, ()>(i)).unwrap()") },
    Carrier { name: "alloc_slice_fill_copy", make: "let c = b.alloc_slice_fill_copy(3, 7u16);", use_: "c[0] += 1;", needs_default: false, exclusive: false, expr: Some("b.alloc_slice_fill_copy(3, 7u16)") },
    Carrier { name: "try_alloc_slice_fill_copy", make: "let c = b.try_alloc_slice_fill_copy(3, 7u16).unwrap();", use_: "c[0] += 1;", needs_default: false, exclusive: false, expr: Some("b.try_alloc_slice_fill_copy(3, 7u16).unwrap()") },
    Carrier { name: "alloc_slice_fill_clone", make: "let c = b.alloc_slice_fill_clone(2, &String::from(\"s\"));", use_: "c[0].push('x');", needs_default: false, exclusive: false, expr: Some("b.alloc_slice_fill_clone(2, &String::from(\"s\"))") },
    Carrier { name: "try_alloc_slice_fill_clone", make: "let c = b.try_alloc_slice_fill_clone(2, &7u8).unwrap();", use_: "c[0] += 1;", needs_default: false, exclusive: false, expr: Some("b.try_alloc_slice_fill_clone(2, &7u8).unwrap()") },
    Carrier { name: "alloc_slice_fill_iter", make: "let c = b.alloc_slice_fill_iter([1u8, 2, 3].iter().cloned());", use_: "c[0] += 1;", needs_default: false, exclusive: false, expr: Some("b.alloc_slice_fill_iter([1u8, 2, 3].iter().cloned())") },
    Carrier { name: "try_alloc_slice_fill_iter", make: "let c = b.try_alloc_slice_fill_iter([1u8, 2, 3].iter().cloned()).unwrap();", use_: "c[0] += 1;", needs_default: false, exclusive: false, expr: Some("b.try_alloc_slice_fill_iter([1u8, 2, 3].iter().cloned()).unwrap()") },
    Carrier { name: "alloc_slice_try_fill_iter", make: "let c = b.alloc_slice_try_fill_iter([Ok::<u8, ()>(1)].iter().cloned()).unwrap();", use_: "c[0] += 1;", needs_default: false, exclusive: false, expr: Some("b.alloc_slice_try_fill_iter([Ok::<u8, ()>(1)].iter().cloned()).unwrap()") },
    Carrier { name: "alloc_slice_fill_default", make: "let c = b.alloc_slice_fill_default::<u32>(3);", use_: "c[0] += 1;", needs_default: false, exclusive: false, expr: Some("b.alloc_slice_fill_default::<u32>(3)") },
    Carrier { name: "try_alloc_slice_fill_default", make: "let c = b.try_alloc_slice_fill_default::<u32>(3).unwrap();", use_: "c[0] += 1;", needs_default: false, exclusive: false, expr: Some("b.try_alloc_slice_fill_default::<u32>(3).unwrap()") },
    Carrier { name: "collections::Vec", make: "let mut c = BVec::new_in(&b); c.push(1u32);", use_: "c.push(2);", needs_default: true, exclusive: false, expr: Some("BVec::<u32>::new_in(&b)") },
    Carrier { name: "collections::Vec via vec!", make: "let mut c = bumpalo::vec![in &b; 1u32, 2, 3];", use_: "c.push(2);", needs_default: true, exclusive: false, expr: Some("bumpalo::vec![in &b; 1u32, 2, 3]") },
    Carrier { name: "collections::Vec via collect_in", make: "let mut c: BVec<u32> = (0..3).collect_in(&b);", use_: "c.push(2);", needs_default: true, exclusive: false, expr: Some("(0..3u32).collect_in::<BVec<u32>>(&b)") },
    Carrier { name: "collections::String", make: "let mut c = BString::from_str_in(\"hi\", &b);", use_: "c.push('x');", needs_default: true, exclusive: false, expr: Some("BString::from_str_in(\"hi\", &b)") },
    Carrier { name: "format!", make: "let mut c = bumpalo::format!(in &b, \"{}\", 5);", use_: "c.push('x');", needs_default: true, exclusive: false, expr: Some("bumpalo::format!(in &b, \"{}\", 5)") },
    Carrier { name: "boxed::Box", make: "let mut c = BBox::new_in(5u32, &b);", use_: "*c += 1;", needs_default: true, exclusive: false, expr: Some("BBox::new_in(5u32, &b)") },
    Carrier { name: "boxed::Box pinned", make: "let c = BBox::pin_in(5u32, &b);", use_: "consume(*c);", needs_default: true, exclusive: false, expr: Some("BBox::pin_in(5u32, &b)") },
    Carrier { name: "Box::leak", make: "let c = BBox::leak(BBox::new_in(5u32, &b));", use_: "*c += 1;", needs_default: true, exclusive: false, expr: Some("BBox::leak(BBox::new_in(5u32, &b))") },
    Carrier { name: "boxed slice from_iter_in", make: "let mut c = BBox::from_iter_in(0..3u8, &b);", use_: "c[0] += 1;", needs_default: true, exclusive: false, expr: Some("BBox::<[u8]>::from_iter_in(0..3u8, &b)") },
    Carrier { name: "into_bump_slice", make: "let c = bumpalo::vec![in &b; 1u32, 2].into_bump_slice();", use_: "consume(c[0]);", needs_default: true, exclusive: false, expr: Some("bumpalo::vec![in &b; 1u32, 2].into_bump_slice()") },
    Carrier { name: "into_bump_slice_mut", make: "let c = bumpalo::vec![in &b; 1u32, 2].into_bump_slice_mut();", use_: "c[0] += 1;", needs_default: true, exclusive: false, expr: Some("bumpalo::vec![in &b; 1u32, 2].into_bump_slice_mut()") },
    Carrier { name: "into_boxed_slice", make: "let mut c = bumpalo::vec![in &b; 1u32, 2].into_boxed_slice();", use_: "c[0] += 1;", needs_default: true, exclusive: false, expr: Some("bumpalo::vec![in &b; 1u32, 2].into_boxed_slice()") },
    // carriers obtained through conversions: the arena lifetime must survive every From / Into / TryFrom / split / clone
    Carrier { name: "Box<[T]> from Box<[T; N]> via into()", make: "let mut c: BBox<[u8]> = BBox::new_in([1u8, 2, 3, 4], &b).into();", use_: "c[0] += 1;", needs_default: true, exclusive: false, expr: Some("BBox::<[u8]>::from(BBox::new_in([1u8, 2, 3, 4], &b))") },
    Carrier { name: "Box<[T; N]> from Box<[T]> via try_into()", make: "let mut c: BBox<[u8; 3]> = BBox::from_iter_in(0..3u8, &b).try_into().ok().unwrap();", use_: "c[0] += 1;", needs_default: true, exclusive: false, expr: Some("BBox::<[u8; 3]>::try_from(BBox::<[u8]>::from_iter_in(0..3u8, &b)).ok().unwrap()") },
    Carrier { name: "Box<[T]> from Vec via into()", make: "let mut c: BBox<[u32]> = bumpalo::vec![in &b; 1u32, 2].into();", use_: "c[0] += 1;", needs_default: true, exclusive: false, expr: Some("BBox::<[u32]>::from(bumpalo::vec![in &b; 1u32, 2])") },
    Carrier { name: "Vec from String::into_bytes", make: "let mut c = BString::from_str_in(\"hi\", &b).into_bytes();", use_: "c.push(1);", needs_default: true, exclusive: false, expr: Some("BString::from_str_in(\"hi\", &b).into_bytes()") },
    Carrier { name: "String from_utf8(Vec)", make: "let mut c = BString::from_utf8(bumpalo::vec![in &b; 104u8, 105]).unwrap();", use_: "c.push('x');", needs_default: true, exclusive: false, expr: Some("BString::from_utf8(bumpalo::vec![in &b; 104u8, 105]).unwrap()") },
    Carrier { name: "from_utf8_lossy_in", make: "let mut c = BString::from_utf8_lossy_in(&[104, 255], &b);", use_: "c.push('x');", needs_default: true, exclusive: false, expr: Some("BString::from_utf8_lossy_in(&[104, 255], &b)") },
    Carrier { name: "from_utf16_in", make: "let mut c = BString::from_utf16_in(&[104, 105], &b).unwrap();", use_: "c.push('x');", needs_default: true, exclusive: false, expr: Some("BString::from_utf16_in(&[104, 105], &b).unwrap()") },
    Carrier { name: "Vec::split_off", make: "let mut v = bumpalo::vec![in &b; 1u32, 2, 3]; let mut c = v.split_off(1);", use_: "c.push(2);", needs_default: true, exclusive: false, expr: None },
    Carrier { name: "Vec::clone", make: "let v = bumpalo::vec![in &b; 1u32, 2, 3]; let mut c = v.clone();", use_: "c.push(2);", needs_default: true, exclusive: false, expr: None },
    Carrier { name: "String::split_off", make: "let mut s = BString::from_str_in(\"hey\", &b); let mut c = s.split_off(1);", use_: "c.push('x');", needs_default: true, exclusive: false, expr: None },
    Carrier { name: "String::clone", make: "let s = BString::from_str_in(\"hey\", &b); let mut c = s.clone();", use_: "c.push('x');", needs_default: true, exclusive: false, expr: None },
    Carrier { name: "Box::into_inner of a boxed arena reference", make: "let c: &mut u32 = BBox::into_inner(BBox::new_in(b.alloc(5u32), &b));", use_: "*c += 1;", needs_default: true, exclusive: false, expr: Some("BBox::into_inner(BBox::new_in(b.alloc(5u32), &b))") },
    Carrier { name: "into_bump_str", make: "let c = BString::from_str_in(\"hi\", &b).into_bump_str();", use_: "consume(c.len());", needs_default: true, exclusive: false, expr: Some("BString::from_str_in(\"hi\", &b).into_bump_str()") },
    Carrier { name: "vec::IntoIter", make: "let mut c = bumpalo::vec![in &b; 1u32, 2, 3].into_iter();", use_: "consume(c.next());", needs_default: true, exclusive: false, expr: Some("bumpalo::vec![in &b; 1u32, 2, 3].into_iter()") },
    Carrier { name: "vec::Drain", make: "let mut v = bumpalo::vec![in &b; 1u32, 2, 3]; let mut c = v.drain(..);", use_: "consume(c.next());", needs_default: true, exclusive: false, expr: None },
    Carrier { name: "vec::Splice", make: "let mut v = bumpalo::vec![in &b; 1u32, 2, 3]; let mut c = v.splice(0..1, [9u32]);", use_: "consume(c.next());", needs_default: true, exclusive: false, expr: None },
    Carrier { name: "vec::DrainFilter", make: "let mut v = bumpalo::vec![in &b; 1u32, 2, 3]; let mut c = v.drain_filter(|x| *x > 1);", use_: "consume(c.next());", needs_default: true, exclusive: false, expr: None },
    Carrier { name: "string::Drain", make: "let mut s = BString::from_str_in(\"hey\", &b); let mut c = s.drain(..);", use_: "consume(c.next());", needs_default: true, exclusive: false, expr: None },
    Carrier { name: "allocator_api2 Vec<_, &Bump>", make: "let mut c = allocator_api2::vec::Vec::new_in(&b); c.push(1u32);", use_: "c.push(2);", needs_default: false, exclusive: false, expr: Some("allocator_api2::vec::Vec::<u32, _>::new_in(&b)") },
    Carrier { name: "allocator_api2 Box<_, &Bump>", make: "let mut c = allocator_api2::boxed::Box::new_in(1u32, &b);", use_: "*c += 1;", needs_default: false, exclusive: false, expr: Some("allocator_api2::boxed::Box::new_in(1u32, &b)") },
    Carrier { name: "ChunkIter", make: "b.alloc(1u8); let mut c = b.iter_allocated_chunks();", use_: "consume(c.next().map(|s| s.len()));", needs_default: false, exclusive: true, expr: Some("b.iter_allocated_chunks()") },
    Carrier { name: "item of ChunkIter", make: "b.alloc(1u8); let c = b.iter_allocated_chunks().next().unwrap();", use_: "consume(c.len());", needs_default: false, exclusive: true, expr: Some("b.iter_allocated_chunks().next().unwrap()") },
    Carrier { name: "ChunkRawIter", make: "b.alloc(1u8); let mut c = unsafe { b.iter_allocated_chunks_raw() };", use_: "consume(c.next());", needs_default: false, exclusive: false, expr: Some("unsafe { b.iter_allocated_chunks_raw() }") },
];

pub struct Misuse {
    pub name: &'static str,
    /// statement inserted between creation and use of the carrier; "" = structural misuse
    pub stmt: &'static str,
    pub codes: &'static [&'static str],
    /// only meaningful for carriers that hold the arena exclusively
    pub only_exclusive: bool,
    /// not meaningful for exclusive carriers (would be a different misuse)
    pub skip_exclusive: bool,
}

pub const MISUSES: &[Misuse] = &[
    Misuse { name: "use after drop(b)", stmt: "drop(b);", codes: &["E0505"], only_exclusive: false, skip_exclusive: false },
    Misuse { name: "use after the arena went out of scope", stmt: "", codes: &["E0597", "E0716"], only_exclusive: false, skip_exclusive: false },
    Misuse { name: "use after reset()", stmt: "b.reset();", codes: &["E0502", "E0499"], only_exclusive: false, skip_exclusive: false },
    Misuse { name: "chunk iteration while it is alive", stmt: "for ch in b.iter_allocated_chunks() { use_ref(ch); }", codes: &["E0502", "E0499"], only_exclusive: false, skip_exclusive: false },
    Misuse { name: "allocate during chunk iteration", stmt: "b.alloc(3u8);", codes: &["E0502", "E0499"], only_exclusive: true, skip_exclusive: false },
    Misuse { name: "arena moved away while borrowed", stmt: "let b2 = b;", codes: &["E0505"], only_exclusive: false, skip_exclusive: false },
    Misuse { name: "arena moved to another thread while borrowed", stmt: "std::thread::spawn(move || drop(b)).join().unwrap();", codes: &["E0505"], only_exclusive: false, skip_exclusive: false },
    Misuse { name: "arena shared with a scoped thread while in use", stmt: "std::thread::scope(|s| { s.spawn(|| { b.alloc(1u8); }); });", codes: &["E0277"], only_exclusive: false, skip_exclusive: true },
    Misuse { name: "carrier sent to another thread", stmt: "std::thread::scope(|s| { s.spawn(move || { consume(c); }); }); return;", codes: &["E0277"], only_exclusive: false, skip_exclusive: false },
];

/// carriers whose value may legitimately cross threads (plain &mut T / &[T] to Send data do):
/// "carrier sent to another thread" is only a misuse for types that hold `&Bump`.
pub fn holds_bump_ref(c: &Carrier) -> bool {
    matches!(
        c.name,
        // vec::IntoIter, vec::Drain and string::Drain are deliberately NOT in this list: their destructors
        // never touch the arena (they only drop elements / move bytes inside the buffer), so sending them to
        // another thread does not share the arena. Splice is in it: dropping a Splice can reserve (allocate)
        // through the vector's &Bump.
        "collections::Vec" | "collections::Vec via vec!" | "collections::Vec via collect_in" | "collections::String" | "format!" | "vec::Splice" | "vec::DrainFilter"
            | "allocator_api2 Vec<_, &Bump>" | "allocator_api2 Box<_, &Bump>" | "ChunkRawIter"
    )
}

pub const FILLERS: [&str; 8] = [
    "let _f = b.alloc(7u8);",
    "b.set_allocation_limit(Some(1 << 20));",
    "let _n = b.allocated_bytes();",
    "let _s = b.alloc_str(\"filler\");",
    "let _k = b.chunk_capacity();",
    "let _l = b.alloc_slice_fill_default::<u16>(4);",
    "let _m = b.min_align();",
    "let _q = b.try_alloc(1u64).is_ok();",
];

pub struct Probe {
    pub text: String,
    pub positive_text: String,
    pub expect: &'static [&'static str],
    pub what: String,
}

pub fn build_probe(arena: usize, carrier: usize, misuse: usize, fill: &[u8]) -> Option<Probe> {
    let c = &CARRIERS[carrier % CARRIERS.len()];
    let m = &MISUSES[misuse % MISUSES.len()];
    let mut arena = arena % ARENAS.len();
    if c.needs_default && !ARENAS[arena].1 {
        arena = 0;
    }
    if m.only_exclusive && !c.exclusive {
        return None;
    }
    if m.skip_exclusive && c.exclusive {
        return None;
    }
    if m.name == "carrier sent to another thread" && !holds_bump_ref(c) {
        return None;
    }
    let decl = ARENAS[arena].0;
    let fillers_before: String = fill.iter().take(3).filter(|x| **x < 200).map(|x| format!("    {}\n", FILLERS[*x as usize % FILLERS.len()])).collect();
    let fillers_after: String = if c.exclusive { String::new() } else { fill.iter().skip(3).take(2).filter(|x| **x < 128).map(|x| format!("    {}\n", FILLERS[*x as usize % FILLERS.len()])).collect() };
    let body = |mis: &str| format!("{PRELUDE}fn main() {{\n    {decl}\n{fillers_before}    {}\n{fillers_after}{}    {}\n}}\n", c.make, mis, c.use_);
    let (text, positive) = if m.stmt.is_empty() {
        // structural: the carrier outlives the block that owns the arena
        let expr = c.expr?;
        let decl_inner = decl;
        let t = format!("{PRELUDE}fn main() {{\n    let mut c;\n    {{\n        {decl_inner}\n{fillers_before}        {}c = {expr};\n    }}\n    {}\n}}\n", if c.exclusive { "b.alloc(1u8); " } else { "" }, c.use_);
        let p = format!("{PRELUDE}fn main() {{\n    {decl_inner}\n    let mut c;\n    {{\n{fillers_before}        {}c = {expr};\n    }}\n    {}\n}}\n", if c.exclusive { "b.alloc(1u8); " } else { "" }, c.use_);
        (t, p)
    } else {
        (body(&format!("    {}\n", m.stmt)), body(""))
    };
    Some(Probe { text, positive_text: positive, expect: m.codes, what: format!("{} / {} / {}", c.name, m.name, decl) })
}

/// stand-alone probes: (name, program, expected codes; empty = must compile)
/// auto-trait matrix: a holder of `T` must not be Send/Sync when `T` is not (it hands out `T`/`&T`), and nothing that
/// carries `&Bump` or points into a chunk is ever Send or Sync. Rejections only: which of these types *are* Send/Sync
/// is not part of the property.
pub fn auto_trait_probes() -> Vec<(&'static str, String, &'static [&'static str])> {
    let mut out: Vec<(&'static str, String, &'static [&'static str])> = Vec::new();
    // (element type, is Send, is Sync)
    let elems: [(&str, bool, bool); 6] = [
        ("std::cell::Cell<u32>", true, false),
        ("Bump", true, false),
        ("Bump<8>", true, false),
        ("std::rc::Rc<u32>", false, false),
        ("std::sync::MutexGuard<'static, u32>", false, true),
        ("*const u8", false, false),
    ];
    let holders: [&str; 5] = [
        "bumpalo::collections::vec::IntoIter<'static, {T}>",
        "bumpalo::collections::vec::Drain<'static, 'static, {T}>",
        "BBox<'static, {T}>",
        "BBox<'static, [{T}]>",
        "BBox<'static, [{T}; 2]>",
    ];
    for h in holders.iter() {
        for (t, send, sync) in elems.iter() {
            let ty = h.replace("{T}", t);
            if !*send {
                let name: &'static str = Box::leak(format!("{ty} is not Send").into_boxed_str());
                out.push((name, format!("{PRELUDE}fn main() {{ is_send::<{ty}>(); }}"), &["E0277"]));
            }
            if !*sync {
                let name: &'static str = Box::leak(format!("{ty} is not Sync").into_boxed_str());
                out.push((name, format!("{PRELUDE}fn main() {{ is_sync::<{ty}>(); }}"), &["E0277"]));
            }
        }
    }
    let never: [&str; 9] = [
        "BVec<'static, u8>",
        "BVec<'static, Bump>",
        "BString<'static>",
        "bumpalo::collections::vec::DrainFilter<'static, 'static, u8, fn(&mut u8) -> bool>",
        "bumpalo::collections::vec::Splice<'static, 'static, std::vec::IntoIter<u8>>",
        "bumpalo::ChunkIter<'static>",
        "bumpalo::ChunkIter<'static, 8>",
        "bumpalo::ChunkRawIter<'static>",
        "bumpalo::ChunkRawIter<'static, 16>",
    ];
    for ty in never.iter() {
        let name: &'static str = Box::leak(format!("{ty} is not Send").into_boxed_str());
        out.push((name, format!("{PRELUDE}fn main() {{ is_send::<{ty}>(); }}"), &["E0277"]));
        let name: &'static str = Box::leak(format!("{ty} is not Sync").into_boxed_str());
        out.push((name, format!("{PRELUDE}fn main() {{ is_sync::<{ty}>(); }}"), &["E0277"]));
    }
    out
}

pub fn fixed_probes() -> Vec<(&'static str, String, &'static [&'static str])> {
    let p = |body: &str| format!("{PRELUDE}{body}");
    let mut v = fixed_probes_base();
    v.extend(auto_trait_probes());
    v
}

fn fixed_probes_base() -> Vec<(&'static str, String, &'static [&'static str])> {
    let p = |body: &str| format!("{PRELUDE}{body}");
    vec![
        ("Bump is not Sync", p("fn main() { is_sync::<Bump>(); }"), &["E0277"]),
        ("Bump<8> is not Sync", p("fn main() { is_sync::<Bump<8>>(); }"), &["E0277"]),
        ("&Bump is not Send", p("fn main() { is_send::<&Bump>(); }"), &["E0277"]),
        ("&Bump<16> is not Send", p("fn main() { is_send::<&Bump<16>>(); }"), &["E0277"]),
        ("collections::Vec is not Send", p("fn main() { is_send::<BVec<'static, u8>>(); }"), &["E0277"]),
        ("collections::String is not Send", p("fn main() { is_send::<BString<'static>>(); }"), &["E0277"]),
        ("collections::Vec is not Sync", p("fn main() { is_sync::<BVec<'static, u8>>(); }"), &["E0277"]),
        ("ChunkRawIter is not Send", p("fn main() { is_send::<bumpalo::ChunkRawIter<'static>>(); }"), &["E0277"]),
        ("Bump is Send", p("fn main() { is_send::<Bump>(); is_send::<Bump<8>>(); is_send::<Bump<16>>(); }"), &[]),
        ("returning an arena reference from the function that owns the arena", p("fn f() -> &'static mut u32 { let b = Bump::new(); b.alloc(1u32) }\nfn main() { f(); }"), &["E0515", "E0597", "E0716"]),
        ("returning a collections::Vec from the function that owns the arena", p("fn f() -> BVec<'static, u32> { let b = Bump::new(); BVec::new_in(&b) }\nfn main() { f(); }"), &["E0515", "E0597", "E0716"]),
        ("returning a leaked Box from the function that owns the arena", p("fn f() -> &'static mut u32 { let b = Bump::new(); BBox::leak(BBox::new_in(1u32, &b)) }\nfn main() { f(); }"), &["E0515", "E0597", "E0716"]),
        ("returning into_bump_str from the function that owns the arena", p("fn f() -> &'static str { let b = Bump::new(); BString::from_str_in(\"x\", &b).into_bump_str() }\nfn main() { f(); }"), &["E0515", "E0597", "E0716"]),
        ("two threads sharing &Bump through thread::scope", p("fn main() { let b = Bump::new(); std::thread::scope(|s| { s.spawn(|| { b.alloc(1u8); }); s.spawn(|| { b.alloc(2u8); }); }); }"), &["E0277"]),
        ("spawned thread borrowing the arena", p("fn main() { let b = Bump::new(); let r = &b; std::thread::spawn(move || { r.alloc(1u8); }).join().unwrap(); }"), &["E0277", "E0597"]),
        ("many allocations alive at once", p("fn main() { let b = Bump::new(); let x = b.alloc(1u32); let y = b.alloc(2u32); let z = b.alloc_str(\"s\"); let mut v = bumpalo::vec![in &b; 1u8]; v.push(2); *x += *y; z.make_ascii_uppercase(); consume((x, y, z, v)); }"), &[]),
        ("idle arena moved to another thread and used there", p("fn main() { let mut b = Bump::new(); b.alloc(1u8); b.reset(); let h = std::thread::spawn(move || { let x = b.alloc(5u32); *x += 1; let n = *x; drop(b); n }); assert_eq!(h.join().unwrap(), 6); }"), &[]),
        ("idle Bump<8> moved to another thread and back", p("fn main() { let b: Bump<8> = Bump::with_min_align(); let b = std::thread::spawn(move || { b.alloc(1u8); b }).join().unwrap(); b.alloc(2u8); }"), &[]),
        ("result outlives the slice it was copied from", p("fn main() { let b = Bump::new(); let c; { let src = vec![1u8, 2, 3]; c = b.alloc_slice_copy(&src); } c[0] += 1; }"), &[]),
        ("result outlives the str it was copied from", p("fn main() { let b = Bump::new(); let c; { let src = String::from(\"abc\"); c = b.alloc_str(&src); } c.make_ascii_uppercase(); }"), &[]),
        ("clone result outlives its source", p("fn main() { let b = Bump::new(); let c; { let src = vec![String::from(\"a\")]; c = b.alloc_slice_clone(&src); } c[0].push('x'); }"), &[]),
        ("Vec::extend by reference from a shorter-lived source", p("fn main() { let b = Bump::new(); let mut v = BVec::new_in(&b); { let src = vec![1u32, 2]; v.extend(&src); v.extend(src.iter()); } v.push(3); consume(v); }"), &[]),
        ("Vec::extend by reference from a source declared after the vector", p("fn main() { let b = Bump::new(); let mut v: BVec<u8> = BVec::new_in(&b); let src = [1u8, 2, 3]; v.extend(&src[..]); v.extend(src.iter()); consume(v.len()); }"), &[]),
        ("helper that copies a borrowed slice into an arena vector by reference", p("fn f<'b>(bump: &'b Bump, src: &[u32]) -> BVec<'b, u32> { let mut v = BVec::new_in(bump); v.extend(src); v.extend(src.iter()); v }\nfn main() { let b = Bump::new(); let v; { let src = vec![1u32, 2]; v = f(&b, &src); } consume(v); }"), &[]),
        ("Vec::extend_from_slice(_copy / s_copy) from a shorter-lived source", p("fn main() { let b = Bump::new(); let mut v = BVec::new_in(&b); { let src = vec![1u32, 2]; v.extend_from_slice(&src); v.extend_from_slice_copy(&src); v.extend_from_slices_copy(&[&src[..], &src[..1]]); } v.push(3); consume(v); }"), &[]),
        ("String built from shorter-lived text", p("fn main() { let b = Bump::new(); let mut s = BString::new_in(&b); let s2; { let t = String::from(\"xé\"); s.push_str(&t); s.insert_str(0, &t); s.extend(t.chars()); s.extend([t.as_str()].iter().cloned()); s.replace_range(.., &t); s2 = BString::from_str_in(&t, &b); } s.push('y'); consume((s, s2)); }"), &[]),
        ("decoders from shorter-lived input", p("fn main() { let b = Bump::new(); let (x, y); { let bytes = vec![104u8, 105, 0xff]; let units = vec![104u16, 105]; x = BString::from_utf8_lossy_in(&bytes, &b); y = BString::from_utf16_in(&units, &b).unwrap(); } consume((x, y)); }"), &[]),
        ("from_iter_in / collect_in / format! from shorter-lived sources", p("fn main() { let b = Bump::new(); let (v, w, f, bx); { let src = vec![String::from(\"a\")]; let n = 7; v = BVec::from_iter_in(src.iter().cloned(), &b); w = src.iter().map(|s| s.len()).collect_in::<BVec<usize>>(&b); f = bumpalo::format!(in &b, \"{}-{}\", src[0], n); bx = BBox::from_iter_in(src.iter().map(|s| s.len()), &b); } consume((v, w, f, bx)); }"), &[]),
        ("slice fills from shorter-lived sources", p("fn main() { let b = Bump::new(); let (x, y, z); { let src = vec![String::from(\"a\"), String::from(\"b\")]; x = b.alloc_slice_fill_iter(src.iter().cloned()); y = b.alloc_slice_fill_clone(2, &src[0]); z = b.alloc_slice_try_fill_iter(src.iter().map(|s| Ok::<usize, ()>(s.len()))).unwrap(); } x[0].push('q'); y[1].push('r'); z[0] += 1; }"), &[]),
        ("allocator_api2 Vec in an arena filled from a shorter-lived source", p("fn main() { let b = Bump::new(); let mut v = allocator_api2::vec::Vec::new_in(&b); { let src = vec![1u32, 2]; v.extend_from_slice(&src); v.extend(src.iter().copied()); } v.push(3); consume(v); }"), &[]),
        ("Bump<8> and Bump<16> moved into threads, a pool behind a Mutex", p("fn main() { let a: Bump<8> = Bump::with_min_align(); let c = Bump::<16>::with_min_align_and_capacity(64); let pool = std::sync::Arc::new(std::sync::Mutex::new(vec![Bump::<4>::with_min_align()])); let p2 = pool.clone(); let h = std::thread::spawn(move || { a.alloc(1u8); c.alloc(2u8); p2.lock().unwrap()[0].alloc(3u8); drop((a, c)); }); h.join().unwrap(); is_send::<Bump<2>>(); is_send::<Bump<4>>(); }"), &[]),
        ("reset after all borrows ended, then reuse", p("fn main() { let mut b = Bump::new(); { let x = b.alloc(1u32); *x += 1; } b.reset(); let y = b.alloc(2u32); *y += 1; }"), &[]),
        ("chunk iteration after all borrows ended", p("fn main() { let mut b = Bump::new(); { let x = b.alloc(1u32); *x += 1; } let n: usize = b.iter_allocated_chunks().map(|c| c.len()).sum(); consume(n); b.alloc(1u8); }"), &[]),
        ("collections in an arena that outlives them", p("fn main() { let b = Bump::new(); { let mut v = BVec::new_in(&b); v.push(1); let mut s = BString::new_in(&b); s.push('x'); let bx = BBox::new_in(5, &b); consume((v, s, bx)); } let mut b = b; b.reset(); }"), &[]),
    ]
}

pub struct Rlibs {
    pub deps: PathBuf,
    pub bumpalo: PathBuf,
    pub api2: PathBuf,
}

pub fn find_rlibs() -> Option<Rlibs> {
    let exe = std::env::current_exe().ok()?;
    let deps = exe.parent()?.join("deps");
    let newest = |prefix: &str| -> Option<PathBuf> {
        let mut best: Option<(std::time::SystemTime, PathBuf)> = None;
        for e in std::fs::read_dir(&deps).ok()? {
            let e = e.ok()?;
            let name = e.file_name().to_string_lossy().to_string();
            if name.starts_with(prefix) && name.ends_with(".rlib") {
                let t = e.metadata().ok()?.modified().ok()?;
                if best.as_ref().map_or(true, |(bt, _)| t > *bt) {
                    best = Some((t, e.path()));
                }
            }
        }
        best.map(|b| b.1)
    };
    Some(Rlibs { bumpalo: newest("libbumpalo-")?, api2: newest("liballocator_api2-")?, deps })
}

#[derive(Debug, Clone, PartialEq)]
pub enum Verdict {
    Accepted,
    Rejected(Vec<String>),
    ToolError(String),
}

pub fn compile(rl: &Rlibs, tag: &str, text: &str) -> Verdict {
    let dir = PathBuf::from(format!("{}/work/c05", verif_root()));
    let _ = std::fs::create_dir_all(&dir);
    let src = dir.join(format!("{tag}.rs"));
    let outp = dir.join(format!("{tag}.rmeta"));
    if std::fs::write(&src, text).is_err() {
        return Verdict::ToolError("cannot write probe".into());
    }
    let out = Command::new("rustc")
        .args(["--edition", "2021", "--crate-type", "bin", "--emit=metadata", "--error-format=json", "--cap-lints", "allow", "-o"])
        .arg(&outp)
        .arg("-L")
        .arg(format!("dependency={}", rl.deps.display()))
        .arg("--extern")
        .arg(format!("bumpalo={}", rl.bumpalo.display()))
        .arg("--extern")
        .arg(format!("allocator_api2={}", rl.api2.display()))
        .arg(&src)
        .stdout(Stdio::null())
        .stderr(Stdio::piped())
        .output();
    let _ = std::fs::remove_file(&src);
    let _ = std::fs::remove_file(&outp);
    match out {
        Err(e) => Verdict::ToolError(format!("cannot run rustc: {e}")),
        Ok(o) => {
            if o.status.success() {
                return Verdict::Accepted;
            }
            let mut codes = vec![];
            let mut first_msg = String::new();
            for line in String::from_utf8_lossy(&o.stderr).lines() {
                if let Ok(v) = serde_json::from_str::<Value>(line) {
                    if v["level"] == "error" {
                        if let Some(c) = v["code"]["code"].as_str() {
                            codes.push(c.to_string());
                        } else if first_msg.is_empty() {
                            first_msg = v["message"].as_str().unwrap_or("").to_string();
                        }
                    }
                }
            }
            if codes.is_empty() {
                Verdict::ToolError(format!("rustc failed without an error code: {first_msg}"))
            } else {
                codes.sort();
                codes.dedup();
                Verdict::Rejected(codes)
            }
        }
    }
}

const BORROWCK: [&str; 11] = ["E0499", "E0502", "E0505", "E0506", "E0597", "E0716", "E0515", "E0521", "E0373", "E0382", "E0277"];

/// judge a misuse probe and its positive twin. Returns (violations, engine errors, nontrivial)
pub fn judge_pair(rl: &Rlibs, tag: &str, p: &Probe) -> (Vec<String>, Vec<String>, bool) {
    let mut viol = vec![];
    let mut eng = vec![];
    let pos = compile(rl, &format!("{tag}p"), &p.positive_text);
    match &pos {
        Verdict::Accepted => {}
        Verdict::Rejected(c) => {
            // a legal program is rejected: either the crate broke an ordinary pattern (violation) or the scaffold is wrong
            if c.iter().all(|x| BORROWCK.contains(&x.as_str())) {
                viol.push(format!("the legal program [{}] (without the misuse) is rejected with {:?}", p.what, c));
            } else {
                eng.push(format!("positive twin [{}] does not compile: {:?}", p.what, c));
            }
            return (viol, eng, false);
        }
        Verdict::ToolError(m) => {
            eng.push(format!("positive twin [{}]: {m}", p.what));
            return (viol, eng, false);
        }
    }
    match compile(rl, &format!("{tag}n"), &p.text) {
        Verdict::Accepted => {
            viol.push(format!("the misuse program [{}] COMPILES; it must be rejected (expected one of {:?})", p.what, p.expect));
            (viol, eng, false)
        }
        Verdict::Rejected(codes) => {
            if codes.iter().any(|c| p.expect.contains(&c.as_str())) {
                (viol, eng, true)
            } else if codes.iter().all(|c| BORROWCK.contains(&c.as_str())) {
                // rejected by the borrow/trait checker, though with another code of the family: still a rejection
                (viol, eng, true)
            } else {
                eng.push(format!("misuse program [{}] rejected for an unrelated reason {:?}", p.what, codes));
                (viol, eng, false)
            }
        }
        Verdict::ToolError(m) => {
            eng.push(format!("misuse program [{}]: {m}", p.what));
            (viol, eng, false)
        }
    }
}

pub struct C05Engine;

impl Engine for C05Engine {
    fn prop(&self) -> &'static str {
        "C05"
    }
    fn level(&self) -> &'static str {
        "other"
    }
    fn strategy(&self, _tier: Tier) -> BoxedStrategy<Vec<u8>> {
        (0u8..ARENAS.len() as u8, 0u8..CARRIERS.len() as u8, 0u8..MISUSES.len() as u8, proptest::collection::vec(any::<u8>(), 5))
            .prop_map(|(a, c, m, f)| {
                let mut v = vec![a, c, m];
                v.extend(f);
                v
            })
            .boxed()
    }
    fn run(&self, bytes: &[u8]) -> CaseOut {
        let g = |i: usize| bytes.get(i).cloned().unwrap_or(0);
        let mut out = CaseOut { hash: fnv(bytes), stats: vec![0, 0, 0], ..Default::default() };
        let Some(rl) = find_rlibs() else {
            out.other.push("ENGINE: rlibs not found".into());
            return out;
        };
        let Some(p) = build_probe(g(0) as usize, g(1) as usize, g(2) as usize, bytes.get(3..).unwrap_or(&[])) else {
            return out;
        };
        out.stats[0] = 1;
        let tag = format!("r{}_{:x}", std::process::id(), fnv(bytes));
        let (viol, eng, nt) = judge_pair(&rl, &tag, &p);
        out.viol = viol;
        out.nontrivial = nt;
        out.stats[1] = nt as u32;
        out.stats[2] = eng.len() as u32;
        for e in eng {
            out.other.push(format!("ENGINE: {e}"));
        }
        out
    }
    fn describe(&self, bytes: &[u8]) -> Value {
        let g = |i: usize| bytes.get(i).cloned().unwrap_or(0);
        match build_probe(g(0) as usize, g(1) as usize, g(2) as usize, bytes.get(3..).unwrap_or(&[])) {
            Some(p) => json!({"probe": p.what, "expected_error_codes": p.expect, "program": p.text, "positive_twin": p.positive_text}),
            None => json!({"probe": "combination not applicable"}),
        }
    }
    fn stat_names(&self) -> Vec<&'static str> {
        vec!["program_pairs_compiled", "misuse_rejected_and_twin_accepted", "engine_errors"]
    }
    fn cases(&self, tier: Tier) -> u32 {
        match tier {
            Tier::Quick => 12,
            Tier::Thorough => 190,
        }
    }
    fn rule(&self) -> String {
        "client programs are generated from a grammar: prelude + arena declaration (5 variants incl. Bump<8>/Bump<16>) + up to 5 legal filler statements + a carrier (47 ways to obtain an arena-backed reference, Vec, String, Box, leaked slice/str, iterator, Drain/Splice/DrainFilter, allocator-api2 container, chunk iterator or chunk item) + optionally ONE misuse (9 kinds) + a use of the carrier; plus 35 stand-alone programs (trait probes, returning arena data from the owning function, the accepted patterns). rustc --emit=metadata against the bumpalo rlib built from /repo's working tree is the oracle: every positive program must be accepted, every single-misuse program rejected with a borrow-checker/trait error. The systematic part compiles every applicable carrier x misuse pair once (exhaustive over the table); the random part adds proptest-chosen arena variants and fillers. non-trivial = a misuse program rejected as expected whose positive twin (same program without the misuse) was accepted; distinct = distinct (arena, carrier, misuse, fillers).".into()
    }
    fn assumptions(&self) -> Vec<String> {
        vec!["only the generated program family is decided; a misuse pattern outside the grammar is not".into(), "rustc (the repository's own toolchain) is trusted as the accept/reject oracle".into()]
    }
    fn crash_is_violation(&self) -> bool {
        false
    }
    fn sweep(&self, _tier: Tier, idx: u32, nworkers: u32) -> Option<SweepOut> {
        let mut out = SweepOut { exhaustive: true, ..Default::default() };
        let Some(rl) = find_rlibs() else {
            out.viol.push(("ENGINE: bumpalo rlib not found next to the probes binary".into(), json!({})));
            return Some(out);
        };
        let mut k = 0u32;
        let mut eng_errors = vec![];
        for ci in 0..CARRIERS.len() {
            for mi in 0..MISUSES.len() {
                k += 1;
                if k % nworkers != idx {
                    continue;
                }
                let arena = (ci + mi) % ARENAS.len();
                let Some(p) = build_probe(arena, ci, mi, &[]) else {
                    continue;
                };
                out.evaluations += 2;
                let (viol, eng, nt) = judge_pair(&rl, &format!("s{idx}_{ci}_{mi}"), &p);
                if nt {
                    out.nontrivial += 1;
                    if out.samples.len() < 1 && idx == 0 {
                        out.samples.push(json!({"probe": p.what, "program": p.text, "verdict": "rejected as expected; twin without the misuse accepted"}));
                    }
                }
                for m in viol {
                    if out.viol.len() < 3 {
                        out.viol.push((m, json!({"arena": arena, "carrier": ci, "misuse": mi})));
                    }
                }
                eng_errors.extend(eng);
            }
        }
        for (i, (name, text, expect)) in fixed_probes().into_iter().enumerate() {
            k += 1;
            if k % nworkers != idx {
                continue;
            }
            out.evaluations += 1;
            let v = compile(&rl, &format!("f{idx}_{i}"), &text);
            match (&v, expect.is_empty()) {
                (Verdict::Accepted, true) => out.nontrivial += 1,
                (Verdict::Rejected(c), false) if c.iter().any(|x| expect.contains(&x.as_str())) => out.nontrivial += 1,
                (Verdict::Accepted, false) => out.viol.push((format!("stand-alone misuse [{name}] COMPILES; expected {:?}", expect), json!({"fixed": i}))),
                (Verdict::Rejected(c), true) => out.viol.push((format!("the legal program [{name}] is rejected with {:?}", c), json!({"fixed": i}))),
                (Verdict::Rejected(c), false) => eng_errors.push(format!("stand-alone [{name}] rejected with unexpected codes {:?}", c)),
                (Verdict::ToolError(m), _) => eng_errors.push(format!("stand-alone [{name}]: {m}")),
            }
        }
        out.extra.insert("engine_errors".into(), json!(eng_errors.len()));
        if !eng_errors.is_empty() {
            out.extra.insert("engine_error_list".into(), json!(eng_errors.iter().take(5).collect::<Vec<_>>()));
        }
        Some(out)
    }
    fn replay_sweep(&self, item: &Value) -> Vec<String> {
        let Some(rl) = find_rlibs() else {
            return vec!["ENGINE: rlibs not found".into()];
        };
        if let Some(i) = item["fixed"].as_u64() {
            let (name, text, expect) = fixed_probes().into_iter().nth(i as usize).unwrap();
            println!("{text}");
            let v = compile(&rl, "replayf", &text);
            println!("verdict: {:?}", v);
            return match (&v, expect.is_empty()) {
                (Verdict::Accepted, false) => vec![format!("stand-alone misuse [{name}] COMPILES")],
                (Verdict::Rejected(c), true) => vec![format!("legal program [{name}] rejected {:?}", c)],
                _ => vec![],
            };
        }
        let p = build_probe(item["arena"].as_u64().unwrap_or(0) as usize, item["carrier"].as_u64().unwrap_or(0) as usize, item["misuse"].as_u64().unwrap_or(0) as usize, &[]);
        match p {
            Some(p) => {
                println!("{}", p.text);
                judge_pair(&rl, "replays", &p).0
            }
            None => vec![],
        }
    }
}


/// Fallback for C20 when the run-time engines do not compile against the current tree: the clause
/// "an idle arena can be moved to another thread and used or dropped there" is also a compile-time
/// fact. Returns the process exit code (1 = violation printed, 2 = nothing to report: still inconclusive).
pub fn c20_thread_probe() -> i32 {
    let Some(rl) = find_rlibs() else {
        eprintln!("INCONCLUSIVE: bumpalo rlib not found");
        return 2;
    };
    let programs: Vec<(&str, String)> = vec![
        ("Bump moved to another thread, used and dropped there", format!("{PRELUDE}fn main() {{ let b = Bump::new(); b.alloc(1u8); let h = std::thread::spawn(move || {{ let x = b.alloc(5u32); *x += 1; drop(b); }}); h.join().unwrap(); }}")),
        ("Bump<8> moved to another thread and back", format!("{PRELUDE}fn main() {{ let b: Bump<8> = Bump::with_min_align(); let b = std::thread::spawn(move || {{ b.alloc(1u8); b }}).join().unwrap(); b.alloc(2u8); }}")),
        ("Bump<16> with capacity handed over through a channel", format!("{PRELUDE}fn main() {{ let (tx, rx) = std::sync::mpsc::channel(); let b = Bump::<16>::with_min_align_and_capacity(64); tx.send(b).unwrap(); std::thread::spawn(move || {{ let mut b = rx.recv().unwrap(); b.alloc(3u64); b.reset(); }}).join().unwrap(); }}")),
        ("Bump<2> and Bump<4> are Send", format!("{PRELUDE}fn main() {{ is_send::<Bump<2>>(); is_send::<Bump<4>>(); }}")),
    ];
    let mut bad = vec![];
    for (i, (name, text)) in programs.iter().enumerate() {
        match compile(&rl, &format!("c20probe{i}"), text) {
            Verdict::Accepted => {}
            Verdict::Rejected(codes) => bad.push((name.to_string(), text.clone(), codes)),
            Verdict::ToolError(m) => {
                eprintln!("INCONCLUSIVE: {m}");
                return 2;
            }
        }
    }
    if bad.is_empty() {
        return 2;
    }
    let dir = format!("{}/replays", verif_root());
    let _ = std::fs::create_dir_all(&dir);
    let path = format!("{dir}/C20-thread-probe.json");
    let body = json!({"property": "C20", "engine": "compile-probe", "failure": bad.iter().map(|b| format!("{}: rejected with {:?}", b.0, b.2)).collect::<Vec<_>>(), "programs": bad.iter().map(|b| b.1.clone()).collect::<Vec<_>>()});
    let _ = std::fs::write(&path, serde_json::to_string_pretty(&body).unwrap());
    let ev = json!({"property_id": "C20", "tier": "quick", "seed": seed_from_env(), "level": "exploration", "violations": bad.len(), "wall_s": 0.0,
        "coverage": {"evaluations": programs.len(), "distinct_nontrivial": programs.len(), "rule": "fallback: the run-time engines for C20 do not compile against the current tree; the hand-over clause of C20 was decided by compiling the client programs that move an idle arena to another thread", "samples": programs.iter().map(|p| p.0).collect::<Vec<_>>()}});
    let _ = std::fs::create_dir_all(format!("{}/evidence", verif_root()));
    let _ = std::fs::write(format!("{}/evidence/C20.json", verif_root()), serde_json::to_string_pretty(&ev).unwrap());
    for (name, _, codes) in bad.iter() {
        println!("  the program [{name}] no longer compiles ({:?}): an idle arena cannot be moved to another thread", codes);
    }
    println!("VIOLATION property=C20 replay={path}");
    1
}
