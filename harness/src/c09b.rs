//! C09, systematic part: every `try_` constructor and size-taking `try_alloc_*` method with boundary and impossible
//! requests (capacities / sizes / element counts on both sides of 1 GiB, `isize::MAX` and `usize::MAX`), for every
//! minimum alignment, on arenas in three states, with a granting and a refusing global allocator.
//!
//! Oracle (the statement of C09, nothing more): the fallible spelling *returns* (a panic is a violation); when it
//! returns `Err` the arena's accounting, capacity and the blocks it holds are what they were; the infallible spelling,
//! run on an identically prepared twin, panics exactly when the fallible one returned `Err`.

use crate::arena_eng::k_meta;
use crate::ledger::{self, enter_arena, enter_user, Plan};
use crate::runner::*;
use crate::sim::panic_msg;
use bumpalo::Bump;
use serde_json::{json, Value};
use std::alloc::Layout;
use std::collections::BTreeMap;
use std::panic::{catch_unwind, AssertUnwindSafe};

pub const ENTRIES: [&str; 14] = [
    "try_with_min_align_and_capacity / with_min_align_and_capacity",
    "Bump::try_with_capacity / with_capacity (MIN_ALIGN 1 only)",
    "try_alloc_layout / alloc_layout, align 1",
    "try_alloc_layout / alloc_layout, align 8",
    "try_alloc_layout / alloc_layout, align 64",
    "try_alloc_layout / alloc_layout, align 4096",
    "try_alloc_slice_fill_copy / alloc_slice_fill_copy",
    "try_alloc_slice_fill_clone / alloc_slice_fill_clone",
    "try_alloc_slice_fill_default / alloc_slice_fill_default",
    "try_alloc_slice_fill_with / alloc_slice_fill_with",
    "try_alloc_slice_fill_iter / alloc_slice_fill_iter",
    "try_alloc_slice_copy / alloc_slice_copy (zero-sized elements)",
    "Bump::try_new / new (MIN_ALIGN 1 only)",
    "try_alloc_slice_clone / alloc_slice_clone (zero-sized elements, small counts)",
];
pub const ELEMS: [usize; 5] = [0, 1, 4, 24, 16]; // element sizes of the slice entries: (), u8, u32, [u8; 24], u128
/// (states 3..6 = the same three on chunks whose base is aligned to exactly 16 and nothing stronger; alloc_layout entries only)
pub const STATES: [&str; 3] = ["fresh arena without a chunk", "arena with a partly used chunk", "arena with a partly used chunk and an allocation limit of 1000 bytes"];
pub const PLANS: [&str; 2] = ["allocator grants (anything above 1 GiB is refused)", "allocator refuses everything"];

fn counts(size: usize) -> Vec<usize> {
    let im = isize::MAX as usize;
    let mut v: Vec<usize> = vec![0, 1, 2, 3, 7, 100, 447, 448, 449, 4096, 70000];
    for d in 0..=17 {
        v.push(usize::MAX - d);
        v.push(im - d);
        v.push(im + 1 + d);
    }
    v.extend([usize::MAX / 2 + 4097, im - 4095, im - 4096, im - 63, im - 64, 1 << 31, (1 << 31) + 1, 1 << 32, 1 << 40, 1 << 62, (1 << 63) + (1 << 62)]);
    if size > 1 {
        for base in [usize::MAX / size, im / size, (im - 15) / size, (im - 4095) / size, (1usize << 30) / size] {
            for d in [-2i64, -1, 0, 1, 2] {
                v.push((base as i128 + d as i128).clamp(0, usize::MAX as i128) as usize);
            }
        }
    }
    v.sort_unstable();
    v.dedup();
    v
}

#[derive(Debug, PartialEq, Clone)]
enum R {
    Ok,
    Err,
    Panic(String),
    Skip,
}

#[derive(Debug, PartialEq, Clone, Copy)]
struct Obs {
    ab: usize,
    abm: usize,
    cap: usize,
    chunks: usize,
    held: usize,
}

fn observe<const M: usize>(b: &Bump<M>, id: u32) -> Obs {
    let (ab, abm, cap, chunks) = {
        let _g = enter_arena(id);
        (b.allocated_bytes(), b.allocated_bytes_including_metadata(), b.chunk_capacity(), unsafe { b.iter_allocated_chunks_raw().count() })
    };
    let mut blocks = vec![];
    ledger::blocks(id, &mut blocks);
    Obs { ab, abm, cap, chunks, held: blocks.iter().filter(|x| x.live).map(|x| x.size).sum() }
}

fn prepare<const M: usize>(id: u32, state: usize) -> Option<Bump<M>> {
    let _g = enter_arena(id);
    let r = catch_unwind(|| {
        let b = Bump::<M>::with_min_align();
        if state >= 1 {
            b.alloc_layout(Layout::from_size_align(3, 1).unwrap());
        }
        if state == 2 {
            b.set_allocation_limit(Some(1000));
        }
        b
    });
    r.ok()
}

/// element-count driven slice entries; T is never instantiated for counts whose reservation must fail
fn slice_call<T: Copy + Default + 'static, const M: usize>(b: &Bump<M>, entry: usize, n: usize, fallible: bool) -> Result<bool, String> {
    let v = T::default();
    catch_unwind(AssertUnwindSafe(|| match (entry, fallible) {
        (6, true) => b.try_alloc_slice_fill_copy(n, v).is_ok(),
        (6, false) => {
            b.alloc_slice_fill_copy(n, v);
            true
        }
        (7, true) => b.try_alloc_slice_fill_clone(n, &v).is_ok(),
        (7, false) => {
            b.alloc_slice_fill_clone(n, &v);
            true
        }
        (8, true) => b.try_alloc_slice_fill_default::<T>(n).is_ok(),
        (8, false) => {
            b.alloc_slice_fill_default::<T>(n);
            true
        }
        (9, true) => b
            .try_alloc_slice_fill_with(n, |_| {
                let _u = enter_user();
                v
            })
            .is_ok(),
        (9, false) => {
            b.alloc_slice_fill_with(n, |_| {
                let _u = enter_user();
                v
            });
            true
        }
        (10, true) => b.try_alloc_slice_fill_iter((0..n).map(|_| v)).is_ok(),
        (_, _) => {
            b.alloc_slice_fill_iter((0..n).map(|_| v));
            true
        }
    }))
    .map_err(panic_msg)
}

fn one<const M: usize>(id: u32, entry: usize, elem: usize, n: usize, state: usize, fallible: bool) -> (R, Option<(Obs, Obs)>) {
    let esize = ELEMS[elem];
    // requests that would really be filled or really be granted at a size that only costs time are skipped
    let bytes = if (6..=11).contains(&entry) || entry == 13 { n.checked_mul(esize) } else { Some(n) };
    if let Some(t) = bytes {
        if t > (4 << 20) && t <= ledger::HARD_CAP + (1 << 16) {
            return (R::Skip, None);
        }
    }
    if (6..=11).contains(&entry) && esize == 0 && n > 4096 && entry != 11 {
        return (R::Skip, None); // zero-sized fills legitimately run for the whole count
    }
    if entry == 13 && n > 4096 {
        return (R::Skip, None);
    }
    match entry {
        0 | 1 | 12 => {
            if (entry == 1 || entry == 12) && M != 1 {
                return (R::Skip, None);
            }
            if state != 0 {
                return (R::Skip, None);
            }
            if entry == 12 && n != 0 {
                return (R::Skip, None);
            }
            let _g = enter_arena(id);
            let r = catch_unwind(|| -> Option<Box<dyn FnOnce()>> {
                // (the arena is boxed away behind a closure so that one code path serves Bump<1> and Bump<M>)
                macro_rules! keep {
                    ($b:expr) => {{
                        let b = $b;
                        let _u = enter_user();
                        Some(Box::new(move || drop(b)) as Box<dyn FnOnce()>)
                    }};
                }
                match (entry, fallible) {
                    (0, true) => match Bump::<M>::try_with_min_align_and_capacity(n) {
                        Ok(b) => keep!(b),
                        Err(_) => None,
                    },
                    (0, false) => keep!(Bump::<M>::with_min_align_and_capacity(n)),
                    (1, true) => match Bump::try_with_capacity(n) {
                        Ok(b) => keep!(b),
                        Err(_) => None,
                    },
                    (1, false) => keep!(Bump::with_capacity(n)),
                    (_, true) => match Bump::try_new() {
                        Ok(b) => keep!(b),
                        Err(_) => None,
                    },
                    (_, false) => keep!(Bump::new()),
                }
            });
            match r {
                Err(p) => (R::Panic(panic_msg(p)), None),
                Ok(None) => {
                    let mut blocks = vec![];
                    ledger::blocks(id, &mut blocks);
                    let held: usize = blocks.iter().filter(|x| x.live).map(|x| x.size).sum();
                    let z = Obs { ab: 0, abm: 0, cap: 0, chunks: 0, held: 0 };
                    (R::Err, Some((z, Obs { held, ..z })))
                }
                Ok(Some(dropper)) => {
                    dropper();
                    (R::Ok, None)
                }
            }
        }
        _ => {
            let layout_opt = if (2..=5).contains(&entry) { Layout::from_size_align(n, [1usize, 8, 64, 4096][entry - 2]).ok() } else { None };
            if (2..=5).contains(&entry) && layout_opt.is_none() {
                return (R::Skip, None);
            }
            ledger::set_placement(id, if state >= 3 { ledger::Placement::Min } else { ledger::Placement::Max });
            let state = state % 3;
            let Some(b) = prepare::<M>(id, state) else {
                return (R::Skip, None);
            };
            let before = observe(&b, id);
            let r: Result<bool, String> = {
                let _g = enter_arena(id);
                match entry {
                    2..=5 => {
                        let l = layout_opt.unwrap();
                        catch_unwind(AssertUnwindSafe(|| {
                            if fallible {
                                b.try_alloc_layout(l).is_ok()
                            } else {
                                b.alloc_layout(l);
                                true
                            }
                        }))
                        .map_err(panic_msg)
                    }
                    6..=10 => match elem {
                        0 => slice_call::<(), M>(&b, entry, n, fallible),
                        1 => slice_call::<u8, M>(&b, entry, n, fallible),
                        2 => slice_call::<u32, M>(&b, entry, n, fallible),
                        3 => slice_call::<[u8; 24], M>(&b, entry, n, fallible),
                        _ => slice_call::<u128, M>(&b, entry, n, fallible),
                    },
                    _ => {
                        // zero-sized source slices may have any length
                        let src: &[()] = unsafe { std::slice::from_raw_parts(std::ptr::NonNull::<()>::dangling().as_ptr(), n) };
                        catch_unwind(AssertUnwindSafe(|| match (entry, fallible) {
                            (11, true) => b.try_alloc_slice_copy(src).map(|s| s.len() == n).unwrap_or(false),
                            (11, false) => b.alloc_slice_copy(src).len() == n,
                            (_, true) => b.try_alloc_slice_clone(src).map(|s| s.len() == n).unwrap_or(false),
                            (_, false) => b.alloc_slice_clone(src).len() == n,
                        }))
                        .map_err(panic_msg)
                    }
                }
            };
            let after = observe(&b, id);
            {
                let _g = enter_arena(id);
                drop(b);
            }
            match r {
                Err(m) => (R::Panic(m), Some((before, after))),
                Ok(true) => (R::Ok, None),
                Ok(false) => (R::Err, Some((before, after))),
            }
        }
    }
}

pub fn item_json(m_idx: usize, entry: usize, elem: usize, n: usize, state: usize, plan: usize) -> Value {
    json!({"c09_boundary": true, "min_align": (1usize << m_idx), "m_idx": m_idx, "entry": entry, "entry_name": ENTRIES[entry], "elem": elem, "elem_size": ELEMS[elem], "n": n.to_string(), "state": state, "state_name": STATES[state % 3], "plan": plan, "plan_name": PLANS[plan]})
}

/// runs one item: (skipped, erred, violations)
pub fn run_item(m_idx: usize, entry: usize, elem: usize, n: usize, state: usize, plan: usize) -> (bool, bool, Vec<String>) {
    fn go<const M: usize>(entry: usize, elem: usize, n: usize, state: usize, plan: usize) -> (bool, bool, Vec<String>) {
        let _ = k_meta();
        let p = if plan == 0 { Plan::None } else { Plan::FailAll };
        let mut viol = vec![];
        ledger::begin_case(0xC09);
        // state preparation must succeed, so the plan is only switched on for the call under test: FailAll is expressed
        // as "refuse from the k-th request on", k = number of requests the preparation makes
        let prep_reqs = if state % 3 == 0 || entry <= 1 || entry == 12 { 0 } else { 1 };
        let plan_for = |_id: u32| if p == Plan::None { Plan::None } else { Plan::FailFrom(prep_reqs) };
        ledger::set_plan(1, plan_for(1));
        ledger::set_plan(2, plan_for(2));
        let (rf, df) = one::<M>(1, entry, elem, n, state, true);
        if rf == R::Skip {
            ledger::end_case();
            return (true, false, viol);
        }
        let (ri, _) = one::<M>(2, entry, elem, n, state, false);
        let what = format!("{} with {} on a {} (MIN_ALIGN {M}, element size {}, {})", ENTRIES[entry], n, STATES[state % 3], ELEMS[elem], PLANS[plan]);
        match &rf {
            R::Panic(m) => viol.push(format!("{what}: the fallible method panicked: {m}")),
            R::Err => {
                if let Some((a, b)) = df {
                    if a != b {
                        viol.push(format!("{what}: the fallible method returned Err but the arena changed: {:?} -> {:?}", a, b));
                    }
                }
                match &ri {
                    R::Panic(m) => {
                        if !(m.contains("out of memory") || m.contains("overflow") || m.contains("allocation error")) {
                            viol.push(format!("{what}: the infallible method panicked with an unexpected message: {m}"));
                        }
                    }
                    R::Ok => viol.push(format!("{what}: the fallible method returned Err where the infallible one succeeded")),
                    _ => {}
                }
            }
            R::Ok => {
                if let R::Panic(m) = &ri {
                    viol.push(format!("{what}: the fallible method succeeded where the infallible one panicked: {m}"));
                }
            }
            R::Skip => {}
        }
        // nothing may stay behind once both arenas are gone
        for id in [1u32, 2] {
            let mut blocks = vec![];
            ledger::blocks(id, &mut blocks);
            if blocks.iter().any(|b| b.live) {
                viol.push(format!("{what}: memory obtained from the global allocator was not given back after the arena was dropped"));
            }
        }
        ledger::end_case();
        (false, rf == R::Err, viol)
    }
    match m_idx {
        0 => go::<1>(entry, elem, n, state, plan),
        1 => go::<2>(entry, elem, n, state, plan),
        2 => go::<4>(entry, elem, n, state, plan),
        3 => go::<8>(entry, elem, n, state, plan),
        _ => go::<16>(entry, elem, n, state, plan),
    }
}

pub fn c09_boundary_sweep(_tier: Tier, idx: u32, nworkers: u32) -> SweepOut {
    install_quiet_panic_hook();
    let mut out = SweepOut { exhaustive: true, ..Default::default() };
    let mut per_entry: BTreeMap<String, u64> = BTreeMap::new();
    let mut k = 0u32;
    let mut erred = 0u64;
    for m_idx in 0..5 {
        for entry in 0..ENTRIES.len() {
            let elems: Vec<usize> = if (6..=10).contains(&entry) { (0..ELEMS.len()).collect() } else { vec![if entry == 11 || entry == 13 { 0 } else { 1 }] };
            for elem in elems {
                for &n in counts(ELEMS[elem]).iter() {
                    for state in 0..(if (2..=5).contains(&entry) { 6 } else { 3 }) {
                        for plan in 0..2 {
                            k += 1;
                            if k % nworkers != idx {
                                continue;
                            }
                            sweep_note(&item_json(m_idx, entry, elem, n, state, plan));
                            let (skipped, err, viol) = run_item(m_idx, entry, elem, n, state, plan);
                            if skipped {
                                continue;
                            }
                            out.evaluations += 1;
                            *per_entry.entry(ENTRIES[entry].to_string()).or_insert(0) += 1;
                            if err {
                                erred += 1;
                                out.nontrivial += 1;
                            }
                            for m in viol {
                                if out.viol.len() < 3 {
                                    out.viol.push((m, item_json(m_idx, entry, elem, n, state, plan)));
                                }
                            }
                            if out.samples.len() < 2 && idx == 0 && err && n > (1 << 40) {
                                out.samples.push(json!({"item": item_json(m_idx, entry, elem, n, state, plan), "outcome": "fallible: Err, infallible: panic"}));
                            }
                        }
                    }
                }
            }
        }
    }
    out.extra.insert("boundary_items_that_returned_err".into(), json!(erred));
    for (k, v) in per_entry {
        out.extra.insert(format!("boundary_items[{k}]"), json!(v));
    }
    out
}

pub fn replay_item(item: &Value) -> Vec<String> {
    let g = |k: &str| item[k].as_u64().unwrap_or(0) as usize;
    let n: usize = item["n"].as_str().and_then(|s| s.parse().ok()).unwrap_or(0);
    run_item(g("m_idx"), g("entry"), g("elem"), n, g("state"), g("plan")).2
}
